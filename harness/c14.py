"""C14 — staged early-stopping optimiser honours its patience/round contract.

Tie: the real `train_numpyro_svi_early_stop` is driven by a scripted stand-in
for the SVI object; the same (config, loss history) goes to the Lean model
`Pysersic.EarlyStop.run`; replies are compared exactly.
Oracle: a monitor of the property's five clauses on the observed trace, written
independently of the Lean model.
"""
from __future__ import annotations

import itertools
import math
import os
import multiprocessing
from concurrent.futures import ProcessPoolExecutor

_MP = multiprocessing.get_context("spawn")

from .common import Violation

PROP = "C14"
LEAN_TARGETS = ["Props.C14", "Proofs.GenEarlyStop", "driver"]
AUDIT_IMPORTS = ["Props.C14", "Proofs.GenEarlyStop"]
NS = "Pysersic.Props.C14."
OBLIGATIONS = [NS + t for t in [
    "calls_bound", "round_calls_bound", "patience_bound", "patience_window", "restart_from_best",
    "round_chained", "round_exponent", "bar_chain", "bar0_value", "adopt_strict",
    "result_first_argmin", "result_start_if_none", "recorded_losses", "run_isSome_iff",
    "bar0_ne_nan", "result_single_round_nan_first", "call_sites_valid",
]] + [
    # the routine as TRANSLATED from the source on this run (Gen/EarlyStopProg.lean, tools/translate_prog.py) returns what the
    # model returns and makes the same update calls — for every history and configuration
    "Pysersic.Proofs.GenEarlyStop.gen_run_eq", "Pysersic.Proofs.GenEarlyStop.gen_calls_eq",
] + [NS + t for t in ["src_calls_bound", "src_result_first_argmin", "src_run_isSome_iff", "src_calls_are_model_steps"]]
MIRRORED_FILES = ["pysersic/pysersic.py"]
ASSUMPTIONS = [
    "the SVI object is abstracted to (state identity, loss) per update call; Adam, ELBO estimation and jit are not modelled",
    "loss comparison is IEEE `<` on float32 scalars; the model's Loss type distinguishes nan, -inf, integers, +inf only",
    "copy.copy of a state preserves its identity as far as get_params can tell",
]

LR_INIT, DECAY = 0.5, 0.5   # exact powers of two: lr identifies the round exactly

TOK = {"nan": float("nan"), "inf": float("inf"), "-inf": float("-inf")}


def tok2f(t):
    return TOK[t] if t in TOK else float(int(t))


def f2tok(x):
    x = float(x)
    if math.isnan(x):
        return "nan"
    if math.isinf(x):
        return "inf" if x > 0 else "-inf"
    assert x == int(x)
    return str(int(x))


# ----------------------------------------------------------------------------
# real code
# ----------------------------------------------------------------------------
_pp = None


def _load():
    global _pp
    if _pp is None:
        os.environ.setdefault("TQDM_DISABLE", "1")
        import pysersic.pysersic as pp
        _pp = pp
    return _pp


def run_real(cfg, toks):
    """Returns a canonical reply string in the driver's format, plus raw trace."""
    pp = _load()
    import jax
    import jax.numpy as jnp
    import numpy as np
    from jax.experimental import io_callback

    losses = [tok2f(t) for t in toks]

    class FakeSVI:
        def __init__(self):
            self.k = 0
            self.calls = []
            self.optim = None
            self.over = False

        def __hash__(self):
            return id(self)

        def __eq__(self, o):
            return self is o

        def init(self, rkey):
            return jnp.array(0, dtype=jnp.int32)

        def _cb(self, state, lr):
            k = self.k
            self.k += 1
            self.calls.append((int(state), float(lr)))
            if k >= len(losses):
                self.over = True
                return np.int32(k + 1), np.float32("nan")
            return np.int32(k + 1), np.float32(losses[k])

        def stable_update(self, state):
            out = io_callback(
                self._cb,
                (jax.ShapeDtypeStruct((), jnp.int32), jax.ShapeDtypeStruct((), jnp.float32)),
                state, self.optim, ordered=True)
            return out[0], out[1]

        def get_params(self, state):
            return state

    svi = FakeSVI()
    nr, mt, pa = cfg
    try:
        res = pp.train_numpyro_svi_early_stop(
            svi, num_round=nr, max_train=mt, patience=pa, lr_init=LR_INIT,
            frac_lr_decrease=DECAY, optimizer=lambda lr: lr)
    except (NameError, UnboundLocalError):
        return "error NameError", None
    lr_to_round = {float(np.float32(LR_INIT * DECAY ** r)): r for r in range(max(nr, 1))}
    calls = [(lr_to_round.get(lr, f"lr?{lr}"), st) for st, lr in svi.calls]
    if svi.over:
        return f"overrun calls={len(calls)}", None
    rec = [f2tok(x) for x in res.losses]
    reply = (f"ok best={int(res.params)} last={int(res.state)} calls={len(calls)} "
             f"losses=[{' '.join(rec)}] trace=[{' '.join(f'{r}:{s}' for r, s in calls)}]")
    raw = dict(best=int(res.params), last=int(res.state), recorded=rec, calls=calls)
    return reply, raw


def _real_job(case):
    cfg, toks = case
    return run_real(cfg, toks)


def model_line(cfg, toks):
    return "es %d %d %d %s" % (cfg[0], cfg[1], cfg[2], " ".join(toks))


# ----------------------------------------------------------------------------
# oracle: the property's clauses on an observed trace (independent of the model)
# ----------------------------------------------------------------------------

def _lt(a, b):
    return a < b  # python float semantics == IEEE


def monitor(cfg, toks, raw):
    """Return list of (clause, message) violated by the observed behaviour."""
    nr, mt, pa = cfg
    L = [tok2f(t) for t in toks]
    calls = raw["calls"]
    bad = []
    # clause a: call budget
    if len(calls) > 1 + nr * mt:
        bad.append(("budget", f"{len(calls)} calls > 1+{nr}*{mt}"))
    if not calls or calls[0] != (0, 0):
        bad.append(("first-step", f"first call {calls[:1]}"))
        return bad
    rounds = {}
    last_r = 0
    for k, (r, st) in enumerate(calls[1:], start=1):
        if not isinstance(r, int) or r < last_r or r >= nr:
            bad.append(("lr", f"call {k} has learning-rate tag {r}"))
            return bad
        last_r = r
        rounds.setdefault(r, []).append((k, st))
    for r, cl in rounds.items():
        if len(cl) > mt:
            bad.append(("budget", f"round {r}: {len(cl)} steps > max_train {mt}"))
    # walk the rounds with the reference notion of "improving"
    best_state, first_loss = 1, L[0]
    for r in range(nr):
        cl = rounds.get(r, [])
        # "the round's best": the first step's loss in round 0, +inf afterwards; a NaN
        # first loss is no best at all (nothing compares below NaN), i.e. +inf
        bar = first_loss if (r == 0 and not math.isnan(first_loss)) else float("inf")
        final_bar = bar
        start = best_state
        prev_out = start
        nonimp = 0
        cur_best, cur_bar = start, bar
        fin_best, fin_bar = start, final_bar
        for idx, (k, st) in enumerate(cl):
            if st != prev_out:
                which = "restart" if idx == 0 else "chain"
                bad.append((which, f"round {r} step {idx}: input state {st}, expected {prev_out}"))
            if nonimp >= pa + 1:
                bad.append(("patience", f"round {r} continued after {nonimp} consecutive non-improving losses (patience {pa})"))
            loss = L[k]
            if _lt(loss, cur_bar):
                cur_bar, cur_best, nonimp = loss, k + 1, 0
            else:
                nonimp += 1
            if _lt(loss, fin_bar):
                fin_bar, fin_best = loss, k + 1
            prev_out = k + 1
        # the reference model runs a round until max_train steps are done or patience+1 consecutive non-improving losses have
        # been seen IN THAT ROUND (the count starts afresh with every round): a shorter round was cut short
        if len(cl) < mt and nonimp < pa + 1:
            bad.append(("round-length", f"round {r} stopped after {len(cl)} of {mt} steps with only {nonimp} consecutive non-improving losses at its end (patience {pa})"))
        best_state = cur_best
        if r == nr - 1:
            if raw["best"] != fin_best:
                tag = "result-nan-first-loss" if (r == 0 and math.isnan(first_loss)) else "result"
                bad.append((tag, f"returned state {raw['best']}, first lowest-loss state of final round is {fin_best}"))
    return bad


def signature(cfg, toks, clause):
    nr, mt, pa = cfg
    if clause == "result-nan-first-loss":
        return "C14:num_round=1,first-loss-NaN,later-loss-finite"
    return f"C14:{clause}:cfg={nr},{mt},{pa}:hist={','.join(toks)}"


def check_case_oracle(cfg, toks, raw):
    out = []
    if raw is None:
        return out
    for clause, msg in monitor(cfg, toks, raw):
        out.append(Violation(
            signature=signature(cfg, toks, clause),
            what=f"clause {clause}: {msg} (num_round={cfg[0]}, max_train={cfg[1]}, patience={cfg[2]}, losses={' '.join(toks)})",
            replay=dict(kind="oracle", cfg=list(cfg), losses=list(toks), clause=clause, message=msg),
        ))
    return out


# ----------------------------------------------------------------------------
# case generation
# ----------------------------------------------------------------------------
ALPHA_RANDOM = ["nan", "inf", "-1", "0", "1", "2", "3", "-inf"]
ALPHA_EXH = ["nan", "inf", "1", "2"]

CORPUS = [
    ((3, 3, 1), "5 4 4 4 3 nan 2 2 2 2".split()),
    ((1, 5, 5), "nan 3 2 nan 2 1".split()),               # F11 witness
    ((1, 4, 0), "2 2 2 2 2".split()),
    ((2, 3, 0), "inf inf inf inf inf inf inf".split()),
    ((3, 2, 3), "nan nan nan nan nan nan nan".split()),
    ((2, 4, 1), "3 2 1 0 -1 0 0 0 0".split()),
    ((3, 0, 2), "1".split()),
    ((2, 6, 2), "1 -inf 0 0 0 0 0 5 4 -inf 3 2 1".split()),
]


def shrink(cfg, toks, still_fails):
    """Greedy shrink of a disagreeing/violating case."""
    cfg = list(cfg)
    toks = list(toks)
    changed = True
    while changed:
        changed = False
        for i in range(3):
            while cfg[i] > (1 if i == 0 else 0):
                c2 = cfg.copy()
                c2[i] -= 1
                need = 1 + c2[0] * c2[1]
                if still_fails(tuple(c2), toks[:need] + ["1"] * max(0, need - len(toks))):
                    cfg = c2
                    toks = toks[:need]
                    changed = True
                else:
                    break
        for i in range(len(toks)):
            for simpler in ("1", "0"):
                if toks[i] not in ("1", "0") or (toks[i] == "0" and simpler == "1"):
                    t2 = toks.copy()
                    t2[i] = simpler
                    if t2 != toks and still_fails(tuple(cfg), t2):
                        toks = t2
                        changed = True
                        break
    return tuple(cfg), toks


def gen_random(rng, n, long_frac=0.15):
    cases = []
    for i in range(n):
        if rng.random() < long_frac:
            nr = int(rng.integers(1, 4))
            mt = int(rng.integers(20, 201))
            pa = int(rng.integers(0, 51))
        else:
            nr = int(rng.integers(1, 5))
            mt = int(rng.integers(0, 13))
            pa = int(rng.integers(0, 7))
        need = 1 + nr * mt
        style = rng.integers(0, 4)
        if style == 0:      # decreasing trend with noise → long rounds
            base = rng.integers(0, 4, size=need).cumsum()
            toks = [str(int(1000 - b)) if rng.random() > 0.1 else str(rng.choice(ALPHA_RANDOM)) for b in base]
        elif style == 1:    # mostly plateaus
            toks = [str(rng.choice(["1", "1", "1", "0", "nan", "2"])) for _ in range(need)]
        else:
            toks = [str(rng.choice(ALPHA_RANDOM)) for _ in range(need)]
        cases.append(((nr, mt, pa), toks))
    return cases


def gen_exhaustive(max_len):
    """Every history over ALPHA_EXH for every config whose reachable length is ≤ max_len."""
    cases = []
    for nr in (1, 2, 3):
        for mt in range(0, 7):
            need = 1 + nr * mt
            if need > max_len:
                continue
            for pa in range(0, 4):
                if pa > mt:
                    continue   # patience beyond max_train behaves like pa = mt
                for hist in itertools.product(ALPHA_EXH, repeat=need):
                    cases.append(((nr, mt, pa), list(hist)))
    return cases


# ----------------------------------------------------------------------------
# entry points used by ./check
# ----------------------------------------------------------------------------

def run_cases(ctx, cases, workers):
    lines = [model_line(c, t) for c, t in cases]
    model_out = ctx.driver.ask(lines)
    # the translated program on the same requests (validates the translator's reading of the source)
    gen_out = ctx.driver.ask(["esgen" + ln[2:] for ln in lines])
    run_cases.gen_out = gen_out
    if workers > 1 and len(cases) > 200:
        with ProcessPoolExecutor(max_workers=workers, mp_context=_MP) as ex:
            real_out = list(ex.map(_real_job, cases, chunksize=max(1, len(cases) // (workers * 8))))
    else:
        real_out = [_real_job(c) for c in cases]
    return model_out, real_out


def correspondence(ctx):
    rng = ctx.rng("corr")
    cases = list(CORPUS)
    exhaustive = False
    if ctx.tier == "quick":
        cases += gen_exhaustive(5)
        cases += gen_random(rng, 1200)
    else:
        cases += gen_exhaustive(9)
        cases += gen_random(rng, 30000)
    model_out, real_out = run_cases(ctx, cases, ctx.workers)
    gen_out = run_cases.gen_out
    stats_seen = []
    disagreements, violations = [], []
    distinct = set()
    stats = dict(broke_early=0, hit_max_train=0, nan_losses=0, name_error=0, adopted_none=0,
                 by_num_round={}, max_len=0)
    for (cfg, toks), m, (r, raw) in zip(cases, model_out, real_out):
        key = (cfg, tuple(toks[: (raw and len(raw["calls"])) or len(toks)]))
        if raw is not None and len(raw["calls"]) > 1:
            distinct.add(key)
        if m != r:
            disagreements.append(dict(cfg=list(cfg), losses=toks, model=m, real=r))
        elif gen_out[len(stats_seen)] != r:
            disagreements.append(dict(cfg=list(cfg), losses=toks, translated_program=gen_out[len(stats_seen)], real=r))
        stats_seen.append(0)
        if raw is None:
            stats["name_error"] += 1
            continue
        stats["by_num_round"][cfg[0]] = stats["by_num_round"].get(cfg[0], 0) + 1
        stats["max_len"] = max(stats["max_len"], len(raw["calls"]))
        if len(raw["calls"]) < 1 + cfg[0] * cfg[1]:
            stats["broke_early"] += 1
        else:
            stats["hit_max_train"] += 1
        if "nan" in toks[: len(raw["calls"])]:
            stats["nan_losses"] += 1
        violations += check_case_oracle(cfg, toks, raw)
    samples = [dict(cfg=list(c), losses=t[:12], real=r[0]) for (c, t), r in list(zip(cases, real_out))[:3]]
    return dict(
        name="early_stop_trace_vs_Pysersic.EarlyStop.run_and_translated_Gen.EarlyStopProg.run",
        evaluations=len(cases), distinct_nontrivial=len(distinct),
        rule=("corpus + every history over {nan,inf,1,2} for all configs with reachable length ≤ "
              f"{5 if ctx.tier == 'quick' else 9} + seeded random histories over {ALPHA_RANDOM} "
              "(15% long: max_train≤200, patience≤50); non-trivial = the real routine made at least one step "
              "inside a round; distinct = distinct (config, consumed history)"),
        samples=samples, distribution=stats, disagreements=disagreements, violations=violations,
        exhaustive_part=True,
    )


def oracle_search(ctx, hints):
    """Search the real code for a history violating the property's clauses."""
    rng = ctx.rng("oracle")
    cases = [(tuple(h["cfg"]), list(h["losses"])) for h in hints[:200] if "cfg" in h]
    cases += list(CORPUS) + gen_exhaustive(6) + gen_random(rng, 3000)
    workers = ctx.workers
    if workers > 1:
        with ProcessPoolExecutor(max_workers=workers, mp_context=_MP) as ex:
            real_out = list(ex.map(_real_job, cases, chunksize=64))
    else:
        real_out = [_real_job(c) for c in cases]
    out = []
    for (cfg, toks), (r, raw) in zip(cases, real_out):
        out += check_case_oracle(cfg, toks, raw)
    # shrink the first few
    shrunk = []
    seen = set()
    attempts = {}
    # shortest histories first; at most two shrink attempts per clause, each with a bounded number of real runs
    for v in sorted(out, key=lambda v: (len(v.replay["losses"]), v.replay["cfg"])):
        if v.signature.startswith("C14:num_round=1"):
            if v.signature not in seen:
                seen.add(v.signature)
                shrunk.append(v)
            continue
        clause = v.replay["clause"]
        budget = [300]

        def still(cfg, toks, clause=clause, budget=budget):
            if budget[0] <= 0:
                return False
            budget[0] -= 1
            r, raw = run_real(cfg, toks)
            return raw is not None and any(c == clause for c, _ in monitor(cfg, toks, raw))
        if attempts.get(clause, 0) < 2 and sum(attempts.values()) < 6:
            attempts[clause] = attempts.get(clause, 0) + 1
            cfg, toks = shrink(tuple(v.replay["cfg"]), v.replay["losses"], still)
            r, raw = run_real(cfg, toks)
            vs = [x for x in check_case_oracle(cfg, toks, raw) if x.replay["clause"] == clause]
            for x in vs:
                if x.signature not in seen:
                    seen.add(x.signature)
                    shrunk.append(x)
    return shrunk


def replay(ctx, payload):
    cfg, toks = tuple(payload["cfg"]), list(payload["losses"])
    r, raw = run_real(cfg, toks)
    return check_case_oracle(cfg, toks, raw)
