"""Builders for small real pysersic objects (priors, fitters, multi-band fitters) used by several checks.
Import only inside child processes / functions: importing this module imports jax."""
from __future__ import annotations

import warnings

import numpy as np

warnings.filterwarnings("ignore")

import jax  # noqa: E402
import jax.numpy as jnp  # noqa: E402
from numpyro import handlers  # noqa: E402
from numpyro.infer.util import log_density  # noqa: E402

import pysersic  # noqa: E402
from pysersic import loss as L  # noqa: E402
from pysersic import priors as PR  # noqa: E402
from pysersic import rendering as RD  # noqa: E402

RENDERERS = dict(pixel=RD.PixelRenderer, fourier=RD.FourierRenderer, hybrid=RD.HybridRenderer)
PROFILE_TYPES = list(RD.base_profile_types)
SKY_TYPES = ["none", "flat", "tilted-plane"]
LOSSES = ["gaussian_loss", "cash_loss", "gaussian_loss_w_frac", "gaussian_loss_w_sys", "student_t_loss",
          "student_t_loss_free_sys", "pseudo_huber_loss", "gaussian_mixture", "gaussian_mixture_w_sys",
          "gaussian_mixture_w_frac"]


def source_prior(profile_type, sky_type="none", suffix="", xc=5.0, yc=5.0, flux=100.0, r_eff=2.0, theta=0.3,
                 sky_guess=0.5, sky_guess_err=0.1):
    """A PySersicSourcePrior built exactly the way PySersicMultiPrior builds its per-source priors
    (SourceProperties with explicit guesses → generate_prior): no photutils involved."""
    props = PR.SourceProperties(-99)
    props.set_sky_guess(sky_guess=sky_guess, sky_guess_err=sky_guess_err)
    props.set_flux_guess(flux)
    props.set_r_eff_guess(r_eff_guess=r_eff)
    props.set_position_guess((xc, yc))
    props.set_theta_guess(theta)
    return props.generate_prior(profile_type, sky_type=sky_type, suffix=suffix)


def multi_prior(types, N, rng, sky_type="none", suffix="", as_kind="dict"):
    n = len(types)
    cat = dict(x=[float(x) for x in rng.uniform(2, N - 3, n)], y=[float(x) for x in rng.uniform(2, N - 3, n)],
               flux=[float(x) for x in rng.uniform(20, 200, n)], r=[float(x) for x in rng.uniform(1.0, 3.0, n)],
               type=list(types))
    kw = {}
    if sky_type != "none":
        kw = dict(sky_guess=0.5, sky_guess_err=0.1)
    return PR.PySersicMultiPrior(cat, sky_type=sky_type, suffix=suffix, **kw), cat


def make_images(rng, N, positive=False):
    yy, xx = np.mgrid[:N, :N]
    data = rng.normal(0, 1, (N, N)) + 30 * np.exp(-((xx - N / 2) ** 2 + (yy - N / 2) ** 2) / 6.0)
    if positive:
        data = np.abs(data) + 2.0
    rms = np.exp(rng.uniform(-0.5, 0.5, (N, N)))
    psf = np.exp(-((np.mgrid[:3, :3][0] - 1) ** 2 + (np.mgrid[:3, :3][1] - 1) ** 2) / 1.5)
    psf /= psf.sum()
    return data, rms, psf


def make_mask(rng, N, style, dtype="bool"):
    if style == "none":
        return None
    if style == "empty":
        m = np.zeros((N, N), bool)
    elif style == "random":
        m = rng.random((N, N)) < 0.3
    elif style == "all-but-one":
        m = np.ones((N, N), bool)
        m[int(rng.integers(0, N)), int(rng.integers(0, N))] = False
    elif style == "half":
        m = np.zeros((N, N), bool)
        m[:, : N // 2] = True
    else:
        raise ValueError(style)
    # "True / non-zero = ignore": segmentation labels, soft-edged and negative flags are masks too
    if dtype == "int":
        return m.astype(int) * rng.choice([1, 2, 7, -1], size=m.shape)
    if dtype == "float":
        return m.astype(float) * rng.choice([2.5, 0.5, 1.0, -1.0], size=m.shape)
    return m


def sample_latents(model, seed=0):
    """Values for every latent (non-observed sample) site, drawn by running the model once."""
    tr = handlers.trace(handlers.seed(model, seed)).get_trace()
    return {k: v["value"] for k, v in tr.items() if v["type"] == "sample" and not v["is_observed"]}, tr


def trace_with(model, params):
    return handlers.trace(handlers.substitute(handlers.seed(model, 0), data=params)).get_trace()
