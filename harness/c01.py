"""C01 — the rendered model carries the requested total flux.

Theorems (Props/C01.lean): DC theorem of the synthesis model (pixel sum of irfft2(G) = Re G(0,0)), hence
scene totals; Fourier/hybrid point source = flux·ΣPSF exactly; Fourier Sersic total = flux·ΣA_k(n)·ΣPSF
for every position/angle/ellipticity/radius (reduction of the 7-D tolerance claim to 1-D); pixel total =
Σintrinsic·ΣPSF; composite split; the analytic normalisation 2πab∫I(z)z dz = flux for any b_n > 0.
Tie: shared render tie + amplitude-table rows at knots (direct-decomposition model vs the real table).
Residual: (R) 1-D scan of ΣA_k(n) on the real table/interpolant and the proved total identity observed on the
real Fourier renderer; (O) the property's tolerance bands against an independent float64 integration.
"""
from __future__ import annotations

import numpy as np

from . import render_common as RC
from .common import Violation, f2h, run_children

PROP = "C01"
LEAN_TARGETS = ["Props.C01", "driver"]
AUDIT_IMPORTS = ["Props.C01"]
NS = "Pysersic.Props.C01."
OBLIGATIONS = [NS + t for t in [
    "convFft_total", "convImg_total", "scene_total", "fourier_pointsource_total", "fourier_sersic_total",
    "mogComps_amp_sum", "fourier_total_reduction", "hybrid_sersic_total", "pixel_sersic_total", "total_add", "total_smul",
    "sersic_pointsource_split", "doublesersic_split", "component_total_scales", "sersic2d_eq_sersicOfZ", "sersic_radial_norm",
    "repo_bn_pos", "hat_partition", "pixel_pointsource_total",
]] + ["Pysersic.Render.synth_dc", "Pysersic.Render.sum_rootE", "Pysersic.Props.C03.psfFft_dc"]
# kernels whose translated source text (Gen/Kernels.lean) is proved equal to the model kernel this property's theorems are about
GEN_KERNELS = ["sersic1D_cx", "render_gaussian_pixel_term", "render_gaussian_fourier_term", "render_sersic_2d"]
MIRRORED_FILES = ["pysersic/rendering.py"]
ASSUMPTIONS = [
    "numerical clauses (how close ΣA_k(n) is to 1; light captured by the footprint / oversampling box) are observed with the property's tolerances, not proved",
    "jnp.fft modelled as explicit DFT sums; interpax interpolation enters as data",
    "independent reference: exact b_n from scipy.special.gammaincinv, enclosed light from the regularised incomplete gamma function, footprint fraction by angular sampling (error ≲ 2e-4)",
]


def correspondence(ctx):
    rng = ctx.rng("corr")
    quick = ctx.tier == "quick"
    scenes = []
    for kind, N, psf, opts in RC.standard_configs(rng, ctx.tier, sizes=[(16, 5), (15, 6)] if quick else None):
        if rng.random() < 0.5:
            psf = psf * float(rng.uniform(0.6, 1.8))     # not normalised
        for i in range(4 if quick else 10):
            # both public entry points: render_source and (one-source catalogue) render_for_model
            scenes.append(RC.gen_scene(rng, kind, N, psf, mode="single" if i % 2 == 0 else "multi", types=[RC.PROFILE_TYPES[(i + N) % 7]], **opts))
    for npr in (0, 15):
        psf = RC.asym_psf(rng, 5)
        scenes.append(RC.gen_scene(rng, "hybrid", 16, psf, mode="single", types=["sersic"], npr=npr))
    dis, stats = RC.render_tie(ctx, scenes)
    # amplitude table rows at knots: Lean direct-decomposition model vs the real table (float64)
    ks = [0, 7, 19, 33, 49] if quick else list(range(0, 50, 3))
    real = run_children("c01", "table_child", [dict(knots=ks)], x64=True)[0]
    lines = [f"decomp 10 {f2h(1e-2)} {f2h(15.0)} 15 {f2h(n)}" for n in real["n"]]
    rep = ctx.driver.ask(lines)
    for n, row, r in zip(real["n"], real["rows"], rep):
        m = RC.parse_floats(r)
        row = np.asarray(row)
        d = float(np.abs(m - row).max())
        if not d <= 1e-6 * max(1.0, float(np.abs(row).max())):
            dis.append(dict(case=dict(n=n), diffs=[f"amps_n_ax row at n={n:.4f}: model vs real differ by {d:.2e} (row scale {np.abs(row).max():.3g})"]))
    stats["table_rows"] = len(ks)
    return dict(
        name="render_source vs Pysersic.Render.sceneArr (normalised and un-normalised PSFs) + amps_n_ax rows vs Pysersic.Render.tableRow",
        evaluations=2 * len(scenes) + len(ks), distinct_nontrivial=len({(s['kind'], s['types'][0]) for s in scenes}),
        rule="seeded single-source scenes, all seven types × three renderers, PSF sums 0.6–1.8; float64 1e-9·peak, float32 2e-5·peak; "
             "table rows at selected knots in float64 at 1e-6 of the row scale (the decomposition sums alternating terms of size 1e3–1e5)",
        samples=[RC.scene_summary(s) for s in scenes[:3]], distribution=stats, disagreements=dis, violations=[])


def table_child(payload):
    import jax.numpy as jnp
    import pysersic.rendering as RD
    R = RD.FourierRenderer((8, 8), jnp.ones((1, 1)))
    n_ax = np.asarray(R.n_ax, dtype=np.float64)
    tab = np.asarray(R.amps_n_ax, dtype=np.float64)
    return dict(n=[float(n_ax[k]) for k in payload["knots"]], rows=[tab[k].tolist() for k in payload["knots"]])


# ----------------------------------------------------------------------------
# independent reference: fraction of the true profile's light inside the footprint
# ----------------------------------------------------------------------------

def frac_inside(N, xc, yc, r_eff, n, ellip, theta, nz=400, nphi=360):
    from scipy.special import gammainc, gammaincinv
    bn = gammaincinv(2 * n, 0.5)
    L = lambda z: gammainc(2 * n, bn * z ** (1.0 / n))  # noqa: E731  enclosed-light fraction within elliptical radius z
    zmax = (gammaincinv(2 * n, 1 - 1e-9) / bn) ** n
    z = np.concatenate([[0.0], np.exp(np.linspace(np.log(1e-4), np.log(zmax), nz))])
    dL = np.diff(L(z))
    zc = 0.5 * (z[1:] + z[:-1])
    phi = (np.arange(nphi) + 0.5) * 2 * np.pi / nphi
    a, b = r_eff, (1 - ellip) * r_eff
    tr = theta + np.pi / 2
    # point at elliptical radius z, phase phi: major axis along (cos tr, sin tr) in (x, y)
    um = np.array([np.cos(tr), np.sin(tr)])
    un = np.array([-np.sin(tr), np.cos(tr)])
    px = xc + zc[:, None] * (a * np.cos(phi)[None, :] * um[0] + b * np.sin(phi)[None, :] * un[0])
    py = yc + zc[:, None] * (a * np.cos(phi)[None, :] * um[1] + b * np.sin(phi)[None, :] * un[1])
    inside = (px >= -0.5) & (px <= N - 0.5) & (py >= -0.5) & (py <= N - 0.5)
    return float((dL * inside.mean(axis=1)).sum() + (1 - L(zmax)) * 0.0)


def components(ptype, p):
    """[(weight, r_eff, n, ellip)] extended components and point-source weight"""
    if ptype == "sersic":
        return [(1.0, p["r_eff"], p["n"], p["ellip"])], 0.0
    if ptype == "exp":
        return [(1.0, p["r_eff"], 1.0, p["ellip"])], 0.0
    if ptype == "dev":
        return [(1.0, p["r_eff"], 4.0, p["ellip"])], 0.0
    if ptype == "doublesersic":
        return [(p["f_1"], p["r_eff_1"], p["n_1"], p["ellip_1"]), (1 - p["f_1"], p["r_eff_2"], p["n_2"], p["ellip_2"])], 0.0
    if ptype == "sersic_exp":
        return [(p["f_1"], p["r_eff_1"], p["n"], p["ellip_1"]), (1 - p["f_1"], p["r_eff_2"], 1.0, p["ellip_2"])], 0.0
    if ptype == "sersic_pointsource":
        return [(1 - p["f_ps"], p["r_eff"], p["n"], p["ellip"])], p["f_ps"]
    return [], 1.0


def gen_flux_scenes(ctx, n_per_kind):
    rng = ctx.rng("oracle")
    out = []
    for kind in ("pixel", "fourier", "hybrid"):
        for i in range(n_per_kind):
            N = int(rng.choice([64, 65, 96]))
            s = int(rng.choice([7, 8, 11, 12]))
            psf = RC.smooth_asym_psf(rng, s)
            if i % 3 != 0:
                psf = psf * float(rng.uniform(0.5, 2.0))      # "normalised or not"
            t = RC.PROFILE_TYPES[i % 7]
            lo_n, hi_n = (0.8, 2.5) if kind == "pixel" else (0.8, 6.0)
            sc = RC.gen_scene(rng, kind, N, psf, types=[t], mode="single", suffix="", pos_styles=("frac",), n_range=(lo_n, hi_n))
            p = sc["params"]
            rmax = N / 12
            for k in p:
                if k.startswith("r_eff"):
                    p[k] = float(rng.uniform(1.5, rmax))
                if k.startswith("ellip"):
                    p[k] = float(rng.uniform(0, 0.9))
            p["flux"] = float(rng.uniform(10, 1000))
            rr = max([v for k, v in p.items() if k.startswith("r_eff")] or [1.0])
            m = max(6 * rr, 8.0)
            if kind == "pixel":     # centre inside the oversampled central box
                p["xc"] = float(rng.uniform(N // 2 - 6, N // 2 + 5))
                p["yc"] = float(rng.uniform(N // 2 - 6, N // 2 + 5))
            else:
                lo_c, hi_c = min(m, (N - 1) / 2), max(N - 1 - m, (N - 1) / 2)
                p["xc"] = float(rng.uniform(lo_c, hi_c))
                p["yc"] = float(rng.uniform(lo_c, hi_c))
            if kind == "hybrid":
                sc["npr"] = int([0, 1, 3, 3][i % 4])       # boundary option 0 (all components in Fourier space) included
            if t == "pointsource":
                p["xc"] = float(rng.uniform(s, N - 1 - s))
                p["yc"] = float(rng.uniform(s, N - 1 - s))
            sc["via_model"] = bool((i // 7 + i) % 2)          # the scene as the numpyro model renders it (render_for_model)
            if kind != "pixel" and i % 5 == 4 and t != "pointsource":
                sc["interp"] = False                          # amplitudes decomposed per call; judged in 64-bit mode
            out.append(RC.cast32_scene(sc))
    # amplitudes decomposed per call (use_interp_amps=False), where the band is tight: compact profiles (small f_out), radii far
    # from the 1 px the interpolation table is built for
    for kind in ("fourier", "hybrid"):
        for i in range(max(3, n_per_kind // 4)):
            N = [64, 65, 96][i % 3]
            psf = RC.smooth_asym_psf(rng, [7, 8, 11][i % 3]) * float(rng.uniform(0.5, 2.0))
            t = ["sersic", "exp", "doublesersic", "sersic_pointsource"][i % 4]
            sc = RC.gen_scene(rng, kind, N, psf, types=[t], mode="single", suffix="", pos_styles=("frac",), n_range=(0.9, 2.5), interp=False)
            p = sc["params"]
            for k in p:
                if k.startswith("r_eff"):
                    p[k] = float(rng.uniform(3.5, N / 12))
                if k.startswith("ellip"):
                    p[k] = float(rng.uniform(0, 0.7))
            p["flux"] = float(rng.uniform(10, 1000))
            p["xc"] = float(rng.uniform(N / 2 - 3, N / 2 + 3))
            p["yc"] = float(rng.uniform(N / 2 - 3, N / 2 + 3))
            sc["via_model"] = bool(i % 2)
            if kind == "hybrid":
                sc["npr"] = int([3, 0, 1][i % 3])
            out.append(RC.cast32_scene(sc))
    # catalogues: the total of a scene of several sources is the sum of the sources' totals (every slot of every source
    # reaches the image: Fourier part, to-be-convolved part, already-observed part)
    for kind in ("pixel", "fourier", "hybrid"):
        for i in range(max(2, n_per_kind // 5)):
            N = [64, 65][i % 2]
            psf = RC.smooth_asym_psf(rng, [7, 8][i % 2]) * float(rng.uniform(0.5, 2.0))
            types = [["pointsource", "sersic"], ["dev", "exp", "pointsource"], ["pointsource", "pointsource"], ["sersic_pointsource", "exp"]][i % 4]
            lo_n, hi_n = (0.8, 2.5) if kind == "pixel" else (0.8, 4.0)
            if kind == "pixel":
                types = [t if t != "dev" else "exp" for t in types]     # no flux claim above n = 2.5 for the pixel renderer
            parts = []
            for t in types:
                one = RC.gen_scene(rng, kind, N, psf, types=[t], mode="single", suffix="", pos_styles=("frac",), n_range=(lo_n, hi_n))["params"]
                for k in one:
                    if k.startswith("r_eff"):
                        one[k] = float(rng.uniform(1.5, 3.5))
                    if k.startswith("ellip"):
                        one[k] = float(rng.uniform(0, 0.3 if kind == "pixel" else 0.6))     # minor axis ≥ 1 px for the pixel renderer
                one["flux"] = float(rng.uniform(50, 500))
                c0 = (N // 2 - 5, N // 2 + 4)
                one["xc"], one["yc"] = float(rng.uniform(*c0)), float(rng.uniform(*c0))
                parts.append(one)
            sc = RC.default_scene(kind=kind, N=N, psf=psf, mode="multi", suffix="", types=list(types), params=RC.with_names(parts, types, "multi", ""))
            sc["parts"] = parts
            sc["via_model"] = True
            if kind == "hybrid":
                sc["npr"] = int([3, 1][i % 2])      # up to the default 3: more real-space components truncate more light (outside the calibrated band)
            out.append(RC.cast32_scene(sc))
    return out


def flux_child(payload):
    import jax.numpy as jnp
    out = []
    for sc in payload["scenes"]:
        try:
            R = RC.build_renderer(sc)
            ft = jnp.float32 if sc.get("interp", True) else jnp.float64
            if sc.get("parts"):
                P = {k: jnp.asarray(v, dtype=ft) for k, v in sc["params"].items()}
                img = np.asarray(R.render_for_model(P, list(sc["types"]), ""), dtype=np.float64)
            elif sc.get("via_model"):
                P = {f"{k}_0": jnp.asarray(v, dtype=ft) for k, v in sc["params"].items()}
                img = np.asarray(R.render_for_model(P, [sc["types"][0]], ""), dtype=np.float64)
            else:
                P = {k: jnp.asarray(v, dtype=ft) for k, v in sc["params"].items()}
                img = np.asarray(R.render_source(P, sc["types"][0]), dtype=np.float64)
            out.append(dict(total=float(img.sum()), finite=bool(np.isfinite(img).all())))
        except Exception as e:
            out.append(dict(error=f"{type(e).__name__}: {str(e)[:160]}"))
    return out


def judge_catalogue(sc, res):
    """scene of several sources: Σ image = Σ_i flux_i·f_in,i·ΣPSF within the flux-weighted band of the sources"""
    kind, N = sc["kind"], sc["N"]
    psum = float(np.asarray(sc["psf"]).sum())
    exp, tol, tot = 0.0, 0.0, 0.0
    for t, p in zip(sc["types"], sc["parts"]):
        p = {k: float(np.float32(v)) for k, v in p.items()}
        comps, wps = components(t, p)
        f_in = wps + sum(w * frac_inside(N, p["xc"], p["yc"], r, n, e, p["theta"]) for (w, r, n, e) in comps)
        band = 1e-4 if t == "pointsource" else 0.015 if kind == "pixel" else 0.045 + (1 - f_in)
        exp += p["flux"] * f_in
        tol += p["flux"] * band
        tot += p["flux"]
    got = res["total"] / psum
    if abs(got - exp) <= tol:
        return []
    return [("catalogue", f"scene {sc['types']}: total/ΣPSF = {got:.3f}, Σ flux·(in-footprint fraction) = {exp:.3f}: off by {(got - exp) / tot:+.4f} of the summed flux "
             f"(allowed {tol / tot:.4f})")]


def judge_flux(sc, res):
    if "error" in res:
        return [("exception", res["error"])]
    if sc.get("parts"):
        return judge_catalogue(sc, res)
    p, t, kind, N = sc["params"], sc["types"][0], sc["kind"], sc["N"]
    psum = float(np.asarray(sc["psf"]).sum())
    comps, wps = components(t, p)
    ratio = res["total"] / (p["flux"] * psum)
    if t == "pointsource":
        return [] if abs(ratio - 1) <= 1e-4 else [("pointsource", f"point source total/(flux·ΣPSF) = {ratio:.6f} (tolerance 1e-4)")]
    f_in = wps + sum(w * frac_inside(N, p["xc"], p["yc"], r, n, e, p["theta"]) for (w, r, n, e) in comps)
    f_out = 1 - f_in
    ns = [n for (w, r, n, e) in comps if w > 0]
    if kind == "pixel":
        if any(n > 2.5 for n in ns):
            return []            # documented limitation: no flux claim above n = 2.5
        tol = 0.015
    else:
        tol = (0.02 if all(1.25 <= n <= 4 for n in ns) else 0.045) + f_out
    if abs(ratio - f_in) <= tol:
        return []
    if kind == "pixel":
        # documented design limit made specific: pixels outside the central box are point-sampled; an ellipse whose minor
        # axis is below a pixel and whose half-light ellipse reaches outside the box is mis-integrated there
        os_ = int(sc["os"])
        lo, hi = N // 2 - os_ - 0.5, N // 2 + os_ - 0.5
        tr = p["theta"] + np.pi / 2
        beyond, bmin = False, 9.0
        for (w, r, n, e) in comps:
            if w <= 0.02:
                continue
            a_, b_ = r, (1 - e) * r
            ex = np.hypot(a_ * np.cos(tr), b_ * np.sin(tr))     # half-extent of the half-light ellipse along x and y
            ey = np.hypot(a_ * np.sin(tr), b_ * np.cos(tr))
            if b_ < 1.0 and (p["xc"] - ex < lo or p["xc"] + ex > hi or p["yc"] - ey < lo or p["yc"] + ey > hi):
                beyond, bmin = True, min(bmin, b_)
        if beyond:
            return [("band-subpixel-minor-axis-beyond-box", f"total/(flux·ΣPSF) = {ratio:.4f}, in-footprint fraction {f_in:.4f}: off by {ratio - f_in:+.4f} "
                     f"(tolerance {tol:.4f}); minor axis {bmin:.2f} px and the half-light ellipse reaches outside the oversampled box")]
    if kind == "hybrid" and ns and 2.5 < max(ns) <= 4.0 and abs(ratio - f_in) <= 0.045 + f_out:
        rr = max(r for (w, r, n, e) in comps)
        dmin = min(p["xc"] + 0.5, N - 0.5 - p["xc"], p["yc"] + 0.5, N - 0.5 - p["yc"])
        if dmin < 15 * rr:          # 15 r_eff = σ of the widest mixture component (frac_end), one of those the hybrid renderer truncates at the frame
            return [("band-tight-upper-end-truncated", f"total/(flux·ΣPSF) = {ratio:.4f}, in-footprint fraction {f_in:.4f}: off by {ratio - f_in:+.4f} "
                     f"(tight tolerance {tol:.4f}, general band {0.045 + f_out:.4f}); n={max(ns):.2f}, nearest edge {dmin:.1f} px = {dmin / rr:.1f} r_eff")]
    return [("band", f"total/(flux·ΣPSF) = {ratio:.4f}, in-footprint fraction {f_in:.4f}: off by {ratio - f_in:+.4f} (tolerance {tol:.4f}; n={ns})")]


# ----------------------------------------------------------------------------
# reduced clause: Σ_k A_k(n) on the real table and interpolant; the proved identity observed
# ----------------------------------------------------------------------------

def amps_scan_child(payload):
    import jax
    import jax.numpy as jnp
    from interpax import interp1d
    import pysersic.rendering as RD
    R = RD.FourierRenderer((16, 16), jnp.asarray(RC.gauss_psf(5, 1.0)))
    ns = jnp.asarray(payload["ns"])
    sums = np.asarray(jax.vmap(lambda n: interp1d(n, R.n_ax, R.amps_n_ax, method="cubic2").sum())(ns), dtype=np.float64)
    # the proved identity on the real renderer: Σimage = flux·ΣA(n)·ΣPSF for random positions/angles (also off-frame)
    rng = np.random.default_rng(payload["seed"])
    worst = 0.0
    for _ in range(payload["n_ident"]):
        n = float(rng.uniform(0.8, 6))
        p = dict(xc=float(rng.uniform(-4, 20)), yc=float(rng.uniform(-4, 20)), flux=float(rng.uniform(1, 100)), r_eff=float(rng.uniform(0.6, 3)),
                 n=n, ellip=float(rng.uniform(0, 0.9)), theta=float(rng.uniform(0, 6.3)))
        img = np.asarray(R.render_source({k: jnp.asarray(v) for k, v in p.items()}, "sersic"), dtype=np.float64)
        a = float(interp1d(jnp.asarray(n), R.n_ax, R.amps_n_ax, method="cubic2").sum())
        exp = p["flux"] * a * float(np.asarray(R.pixel_PSF, dtype=np.float64).sum())
        worst = max(worst, abs(img.sum() - exp) / abs(exp))
    return dict(sums=sums.tolist(), ident_worst=worst)


def residual(ctx):
    quick = ctx.tier == "quick"
    viol = []
    ns = np.linspace(0.8, 6.0, 2000 if quick else 50000)
    info = {}
    for x64 in (False, True):
        r = run_children("c01", "amps_scan_child", [dict(ns=ns.tolist(), seed=ctx.seed, n_ident=20 if quick else 200)], x64=x64)[0]
        dev = np.asarray(r["sums"]) - 1
        info["x64" if x64 else "f32"] = dict(min=float(dev.min()), max=float(dev.max()), ident_worst=r["ident_worst"])
        bad = np.abs(dev) > 0.045
        bad2 = (np.abs(dev) > 0.02) & (ns >= 1.25) & (ns <= 4)
        if bad.any() or bad2.any():
            i = int(np.argmax(np.abs(dev) * (bad | bad2)))
            viol.append(Violation("C01:amps-sum", f"Σ_k A_k(n) − 1 = {dev[i]:+.4f} at n = {ns[i]:.4f} ({'x64' if x64 else 'float32'} table): outside the band the property allows "
                                  "(by fourier_total_reduction this is the Fourier renderer's flux error for every position and shape)",
                                  dict(kind="amps", n=float(ns[i]))))
        if not r["ident_worst"] <= (1e-9 if x64 else 1e-4):
            viol.append(Violation("C01:total-identity", f"Σimage ≠ flux·ΣA(n)·ΣPSF on the real Fourier renderer: relative {r['ident_worst']:.2e}",
                                  dict(kind="amps", n=None)))
    scenes = gen_flux_scenes(ctx, 14 if quick else 170)
    viol += flux_run(ctx, scenes)
    return dict(name="ΣA_k(n) scan on the real table + flux bands vs independent integration", cases=len(scenes) + 2 * len(ns),
                amps_sum_minus_one=info, violations=viol)


def flux_run(ctx, scenes):
    w = min(ctx.workers, 8)
    std = [s for s in scenes if s.get("interp", True)]
    direct = [s for s in scenes if not s.get("interp", True)]
    res = RC.unchunk(run_children("c01", "flux_child", [dict(scenes=ch) for ch in RC.chunked(std, w)], x64=False, workers=w), len(std)) if std else []
    if direct:
        res = res + RC.unchunk(run_children("c01", "flux_child", [dict(scenes=ch) for ch in RC.chunked(direct, min(w, len(direct)))], x64=True, workers=w), len(direct))
    scenes = std + direct
    out = []
    for s, r in zip(scenes, res):
        for clause, msg in judge_flux(s, r):
            out.append(Violation(f"C01:{clause}:{s['kind']}" + ("" if clause in ("band-subpixel-minor-axis-beyond-box", "band-tight-upper-end-truncated") else f":{s['types'][0]}"), f"{s['kind']} renderer, {s['types'][0]}, N={s['N']}: {msg}",
                                 dict(kind="flux", scene=RC.ser_scene(s))))
    return out


def oracle_search(ctx, hints):
    return flux_run(ctx, gen_flux_scenes(ctx, 40))


def replay(ctx, payload):
    if payload.get("kind") == "flux":
        return flux_run(ctx, [RC.deser_scene(payload["scene"])])
    return residual(ctx)["violations"]
