"""C20 — renderer construction options trade accuracy and cost, never meaning.

Theorems (Props/C20.lean): the oversampled set is exactly [N/2−os, N/2+os)² (empty for os = 0), point-sampled outside /
quadrature inside, constants reproduced; hybrid split = partition into the narrowest (Fourier) and the num_pixel_render widest
(real-space) components, identical to Fourier for num_pixel_render = 0; one σ grid for both amplitude branches.
Tie: shared render tie over the option space (os, num_os, n_sigma, num_pixel_render, frac_*, interpolated and direct amplitudes).
Oracle (the property's criteria on the real code): pixel classes against the point-sampled profile (1e-6) and an independent
float64 pixel integration (2e-5, num_os ≥ 3); hybrid vs Fourier (6e-3; exactly 0 for num_pixel_render = 0); n_sigma ∈ {15, 20, 30}
within 5e-3; interpolated vs direct amplitudes within 1e-3 at tabulated indices (float64).
"""
from __future__ import annotations

import numpy as np

from . import render_common as RC
from .common import Violation, run_children

PROP = "C20"
LEAN_TARGETS = ["Props.C20", "driver"]
AUDIT_IMPORTS = ["Props.C20"]
NS = "Pysersic.Props.C20."
OBLIGATIONS = [NS + t for t in [
    "inBox_iff", "inBox_admissible", "inBox_zero", "pixel_outside", "pixel_inside", "pixel_os_zero", "osPixel_const",
    "split_partition", "realPart_length", "fourierPart_length", "realPart_get", "hybrid_zero_eq_fourier",
    "hybrid_pointsource_eq_fourier", "same_sigma_grid", "sigma_first", "sigma_last", "repo_defaults_admissible", "repo_pixel_box", "repo_pixel_box_lo",
]]
# kernels whose translated source text (Gen/Kernels.lean) is proved equal to the model kernel this property's theorems are about
GEN_KERNELS = ["render_sersic_2d", "render_gaussian_pixel_term", "render_gaussian_fourier_term", "hybrid_broaden"]
MIRRORED_FILES = ["pysersic/rendering.py"]
ASSUMPTIONS = [
    "quantitative agreement between option settings (6e-3, 5e-3, 1e-3, 2e-5) is observed on the real code with the property's tolerances, not proved",
    "numpy leggauss nodes/weights enter the model as data; Σw = 1 is checked on the real data each run",
    "direct (non-interpolated) amplitudes are compared in float64 only: the decomposition is numerically unstable in float32 (the library warns about it)",
]


def correspondence(ctx):
    rng = ctx.rng("corr")
    quick = ctx.tier == "quick"
    scenes = []
    dis = []
    # pixel renderer: every box half-width for a few N, several orders, centre outside the box
    for N in ([12, 15] if quick else [8, 12, 15, 20, 23, 27]):
        psf = np.ones((1, 1))
        for os_ in sorted(set([0, 1, N // 4, N // 2] if quick else range(0, N // 2 + 1))):
            num_os = int(rng.choice([1, 2, 3, 5, 8, 12, 16]))
            sc = RC.gen_scene(rng, "pixel", N, psf, types=[str(rng.choice(["sersic", "exp", "dev", "doublesersic"]))], mode="single",
                              pos_styles=("outside", "edge", "frac"), os=int(os_), num_os=num_os, n_range=(0.65, 4.0))
            scenes.append(sc)
    # hybrid / fourier option space
    for N, s in ([(16, 5)] if quick else [(16, 5), (21, 7), (24, 6)]):
        psf = RC.asym_psf(rng, s)
        for nsig in ([15, 8] if quick else [15, 20, 30, 8]):
            for npr in sorted(set([0, 1, 3, nsig] if quick else [0, 1, 2, 3, nsig // 2, nsig - 1, nsig])):
                fs, fe = (1e-2, 15.0) if rng.random() < 0.6 else (float(rng.uniform(5e-3, 5e-2)), float(rng.uniform(8, 20)))
                scenes.append(RC.gen_scene(rng, "hybrid", N, psf, types=[str(rng.choice(RC.EXTENDED))], mode="single", nsig=nsig, npr=npr,
                                           fs=fs, fe=fe))
            scenes.append(RC.gen_scene(rng, "fourier", N, psf, types=[str(rng.choice(RC.EXTENDED))], mode="single", nsig=nsig))
    d1, stats = RC.render_tie(ctx, scenes)
    dis += d1
    # direct amplitudes (use_interp_amps=False): float64 only, the model computes the decomposition itself
    direct = []
    for kind in ("fourier", "hybrid"):
        for _ in range(2 if quick else 8):
            N = 12
            sc = RC.gen_scene(rng, kind, N, RC.asym_psf(rng, 3), types=["sersic"], mode="single", interp=False, nsig=int(rng.choice([15, 10])),
                              npr=int(rng.integers(0, 4)), n_range=(0.8, 6.0))
            direct.append(sc)
    real = RC.run_real(direct, True, workers=2)
    lines = [RC.scene_line(s, []) for s, r in zip(direct, real) if r["error"] is None]
    rep = iter(ctx.driver.ask(lines))
    for s, r in zip(direct, real):
        if r["error"] is not None:
            dis.append(dict(scene=RC.ser_scene(s), diffs=[f"real code raised {r['error']}"]))
            continue
        m = RC.compare_images(r["image"], RC.parse_image(next(rep), s["N"]), 1e-6, "direct-amplitude image (x64)")
        if m:
            dis.append(dict(scene=RC.ser_scene(s), diffs=[m]))
    # Σw = 1 for the real quadrature data
    for n in range(1, 17):
        _, w = np.polynomial.legendre.leggauss(n)
        if abs(w.sum() / 2 - 1) > 1e-14:
            dis.append(dict(scene=None, diffs=[f"leggauss({n}) weights/2 sum to {w.sum() / 2!r}, hypothesis Σw = 1 of osPixel_const fails"]))
    stats["direct_amplitude_scenes"] = len(direct)
    return dict(
        name="render_source over the option space vs Pysersic.Render.sceneArr (incl. the Lean direct decomposition)",
        evaluations=2 * len(scenes) + len(direct) + 16, distinct_nontrivial=len({(s['kind'], s['N'], s['os'], s['num_os'], s['nsig'], s['npr']) for s in scenes}),
        rule="pixel: box half-width 0…N/2 × sub-sampling order 1…16, identity PSF, centres outside/at the edge of the frame or box; hybrid/Fourier: "
             "n_sigma × num_pixel_render 0…n_sigma × frac ranges; float64 1e-9·peak and float32 2e-5·peak; direct amplitudes in float64 at 1e-6·peak",
        samples=[RC.scene_summary(s) for s in scenes[:3]], distribution=stats, disagreements=dis, violations=[])


# ----------------------------------------------------------------------------
# oracle
# ----------------------------------------------------------------------------

def sersic_np(X, Y, p):
    """analytic profile, float64, from the mathematical definition with the code's b_n approximation"""
    from scipy.special import gammaln
    n = p["n"]
    bn = 1.9992 * n - 0.3271
    tr = p["theta"] + np.pi / 2
    a, b = p["r_eff"], (1 - p["ellip"]) * p["r_eff"]
    xm = (X - p["xc"]) * np.cos(tr) + (Y - p["yc"]) * np.sin(tr)
    xn = -(X - p["xc"]) * np.sin(tr) + (Y - p["yc"]) * np.cos(tr)
    z = np.sqrt((xm / a) ** 2 + (xn / b) ** 2)
    amp = p["flux"] * bn ** (2 * n) / (np.exp(bn + gammaln(2 * n)) * p["r_eff"] ** 2 * np.pi * 2 * n)
    return amp * np.exp(-bn * (z ** (1 / n) - 1)) / (1 - p["ellip"])


def pixel_integral(N, p, order=40):
    x, w = np.polynomial.legendre.leggauss(order)
    x, w = x / 2, w / 2
    r, c = np.mgrid[:N, :N].astype(float)
    out = np.zeros((N, N))
    for xi, wi in zip(x, w):
        for xj, wj in zip(x, w):
            out += wi * wj * sersic_np(c + xj, r + xi, p)
    return out


def pixel_child(payload):
    import jax.numpy as jnp
    out = []
    for c in payload["cases"]:
        fails = []
        try:
            N, os_, num_os, p = c["N"], c["os"], c["num_os"], c["p"]
            sc = RC.default_scene(kind="pixel", N=N, psf=np.ones((1, 1)), os=os_, num_os=num_os)
            R = RC.build_renderer(sc)
            P32 = {k: float(np.float32(v)) for k, v in p.items()}
            img = np.asarray(R.render_source({k: jnp.float32(v) for k, v in P32.items()}, "sersic"), dtype=np.float64)
            r, cc = np.mgrid[:N, :N].astype(float)
            point64 = sersic_np(cc, r, P32)          # independent float64 formula
            import pysersic.rendering as RD
            # "the point-sampled analytic profile" at float32 precision: the library's stand-alone kernel on the pixel centres
            point = np.asarray(RD.render_sersic_2d(jnp.asarray(cc, dtype=jnp.float32), jnp.asarray(r, dtype=jnp.float32),
                                                   *[jnp.float32(P32[k]) for k in ("xc", "yc", "flux", "r_eff", "n", "ellip", "theta")]), dtype=np.float64)
            d64 = float(np.abs(point - point64).max() / np.abs(point64).max())
            if not d64 <= 2e-5:
                fails.append(("kernel", f"render_sersic_2d differs from the independent float64 formula by {d64:.2e} of the peak"))
            integ = pixel_integral(N, P32)
            peak = float(np.abs(point).max())
            lo, hi = N // 2 - os_, N // 2 + os_
            inside = np.zeros((N, N), bool)
            inside[max(lo, 0):hi, max(lo, 0):hi] = True
            d_out = np.abs(img - point)[~inside].max() / peak if (~inside).any() else 0.0
            if not d_out <= 1e-6:
                i = np.unravel_index(int(np.argmax(np.where(~inside, np.abs(img - point), 0))), img.shape)
                fails.append(("outside", f"a pixel outside the box [{lo},{hi}) differs from the point-sampled profile by {d_out:.2e} of the peak at {tuple(int(v) for v in i)}"))
            if inside.any() and num_os >= 3:
                d_in = np.abs(img - integ)[inside].max() / peak
                if not d_in <= 2e-5:
                    i = np.unravel_index(int(np.argmax(np.where(inside, np.abs(img - integ), 0))), img.shape)
                    fails.append(("inside", f"a pixel inside the box [{lo},{hi}) differs from the pixel-integrated profile by {d_in:.2e} of the peak at {tuple(int(v) for v in i)}"))
            sep = float(np.abs(point - integ)[inside].max() / peak) if inside.any() else None
        except Exception as e:
            fails.append(("exception", f"{type(e).__name__}: {str(e)[:200]}"))
            sep = None
        out.append(dict(fails=fails, sep=sep))
    return out


def mog_child(payload):
    import jax
    import jax.numpy as jnp
    out = []
    x64 = bool(jax.config.jax_enable_x64)
    ft = jnp.float64 if x64 else jnp.float32
    for c in payload["cases"]:
        fails = []
        try:
            N, psf, p = c["N"], np.asarray(c["psf"]), c["p"]
            P = {k: jnp.asarray(v, dtype=ft) for k, v in p.items()}

            def img(kind, **opts):
                R = RC.build_renderer(RC.default_scene(kind=kind, N=N, psf=psf, **opts))
                return np.asarray(R.render_source(P, c["type"]), dtype=np.float64)
            if c["what"] == "hybrid-vs-fourier":
                f = img("fourier")
                peak = float(np.abs(f).max())
                for npr in c["nprs"]:
                    d = float(np.abs(img("hybrid", npr=npr) - f).max()) / peak
                    if npr == 0 and d != 0.0:
                        fails.append(("hybrid-zero", f"num_pixel_render=0: hybrid differs from Fourier by {d:.2e} of the peak (must be identical)"))
                    elif not d <= 6e-3:
                        fails.append(("hybrid-vs-fourier", f"num_pixel_render={npr}: hybrid differs from Fourier by {d:.2e} of the peak (tolerance 6e-3)"))
                # "identically when that number is zero" — for every admissible decomposition, not only the default number of components
                for ns in (20, 30):
                    d = float(np.abs(img("hybrid", npr=0, nsig=ns) - img("fourier", nsig=ns)).max()) / peak
                    if d != 0.0:
                        fails.append(("hybrid-zero", f"num_pixel_render=0, n_sigma={ns}: hybrid differs from Fourier by {d:.2e} of the peak (must be identical)"))
            elif c["what"] == "n-sigma":
                ims = {ns: img(c["kind"], nsig=ns) for ns in (15, 20, 30)}
                peak = float(np.abs(ims[30]).max())
                for a, b in ((15, 20), (15, 30), (20, 30)):
                    d = float(np.abs(ims[a] - ims[b]).max()) / peak
                    if not d <= 5e-3:
                        fails.append(("n-sigma", f"n_sigma={a} vs {b}: {d:.2e} of the peak (tolerance 5e-3)"))
            elif c["what"] == "interp-vs-direct":
                for nval in c.get("ns") or [p["n"]]:
                    P["n"] = jnp.asarray(nval, dtype=ft)
                    a = img(c["kind"], interp=True)
                    b = img(c["kind"], interp=False)
                    d = float(np.abs(a - b).max()) / float(np.abs(b).max())
                    if not d <= 1e-3:
                        fails.append(("interp-vs-direct", f"interpolated vs direct amplitudes at tabulated n={nval:.4f}: {d:.2e} of the peak (tolerance 1e-3)"))
                        break
        except Exception as e:
            fails.append(("exception", f"{type(e).__name__}: {str(e)[:200]}"))
        out.append(dict(fails=fails))
    return out


def gen_pixel_cases(rng, n):
    cases = []
    for _ in range(n):
        N = int(rng.choice([20, 23, 24, 27, 31, 32]))
        os_ = int(rng.integers(0, N // 2 + 1))
        num_os = int(rng.choice([1, 2, 3, 4, 6, 8, 12, 16]))
        lo, hi = N // 2 - os_, N // 2 + os_
        # centre outside the box (so the integrand is smooth inside it) but near enough that the two targets differ visibly
        xc = yc = None
        for _try in range(200):
            xc, yc = float(rng.uniform(1, N - 2)), float(rng.uniform(1, N - 2))
            if not (lo - 1.5 <= xc <= hi + 0.5 and lo - 1.5 <= yc <= hi + 0.5):
                break
        else:
            # the box leaves no room inside the frame: put the centre just outside the frame instead
            xc, yc = -1.0 - float(rng.uniform(0, 1)), float(rng.uniform(1, N - 2))
        p = dict(xc=xc, yc=yc, flux=float(rng.uniform(10, 1000)), r_eff=float(rng.uniform(1.5, 4.0)), n=float(rng.uniform(0.7, 2.5)),
                 ellip=float(rng.uniform(0, 0.6)), theta=float(rng.uniform(0, np.pi)))
        cases.append(dict(N=N, os=os_, num_os=num_os, p=p))
    return cases


def gen_mog_cases(rng, n):
    cases = []
    n_ax = np.linspace(0.65, 8.0, 50)
    for k in range(n):
        N = int(rng.choice([48, 64]))
        psf = RC.gauss_psf(13, float(rng.uniform(1.1, 1.6)))      # Gaussian PSF, FWHM ≥ 2.5 px, stamp ≥ ±3.7σ
        t = "sersic"
        p = dict(xc=float(N / 2 + rng.uniform(-4, 4)), yc=float(N / 2 + rng.uniform(-4, 4)), flux=100.0, r_eff=float(rng.uniform(1.0, N / 12)),
                 n=float(rng.uniform(0.8, 6.0)), ellip=float(rng.uniform(0, 0.8)), theta=float(rng.uniform(0, np.pi)))
        what = ["hybrid-vs-fourier", "n-sigma", "interp-vs-direct"][k % 3]
        c = dict(N=N, psf=psf.tolist(), p=p, type=t, what=what, kind=str(rng.choice(["fourier", "hybrid"])))
        if what == "n-sigma":
            c["p"]["n"] = float(rng.uniform(1.0, 6.0))      # below n ≈ 1 the 15-component grid itself is the documented inaccuracy (C01's n < 0.8 exclusion)
        if what == "hybrid-vs-fourier":
            c["nprs"] = [0] + [int(x) for x in rng.choice(np.arange(1, 16), 3, replace=False)]
        if what == "interp-vs-direct":
            # tabulated indices: both ends of the table in every case (the rows a coarse σ grid fits worst), four in between
            idx = [0, 1, 49] + [int(x) for x in rng.choice(np.arange(2, 49), 4, replace=False)]
            c["ns"] = [float(n_ax[i]) for i in idx]
            c["p"]["n"] = c["ns"][-1]
        cases.append(c)
    return cases


def oracle_run(ctx, pcases, mcases):
    w = min(ctx.workers, 8)
    out = []
    pres = RC.unchunk(run_children("c20", "pixel_child", [dict(cases=ch) for ch in RC.chunked(pcases, w)], x64=False, workers=w), len(pcases)) if pcases else []
    for c, r in zip(pcases, pres):
        for clause, msg in r["fails"]:
            sig = f"C20:pixel-{clause}" + (":num_os=3" if clause == "inside" and c["num_os"] == 3 else "")
            out.append(Violation(sig, f"pixel renderer N={c['N']} os={c['os']} num_os={c['num_os']}: {msg}", dict(kind="pixel", case=c)))
    m32 = [c for c in mcases if c["what"] != "interp-vs-direct"]
    m64 = [c for c in mcases if c["what"] == "interp-vs-direct"]
    for group, x64 in ((m32, False), (m64, True)):
        if not group:
            continue
        res = RC.unchunk(run_children("c20", "mog_child", [dict(cases=ch) for ch in RC.chunked(group, w)], x64=x64, workers=w), len(group))
        for c, r in zip(group, res):
            for clause, msg in r["fails"]:
                out.append(Violation(f"C20:{clause}", f"{c['what']} (N={c['N']}, n={c['p']['n']:.3f}, r_eff={c['p']['r_eff']:.2f}): {msg}", dict(kind="mog", case=c)))
    seps = [r["sep"] for r in pres if r.get("sep") is not None]
    return out, (float(np.median(seps)) if seps else None)


def residual(ctx):
    rng = ctx.rng("oracle")
    quick = ctx.tier == "quick"
    pc = gen_pixel_cases(rng, 16 if quick else 300)
    mc = gen_mog_cases(rng, 9 if quick else 120)
    v, sep = oracle_run(ctx, pc, mc)
    return dict(name="pixel classes vs point-sampled / integrated profile; hybrid vs Fourier; n_sigma; interpolated vs direct amplitudes",
                cases=len(pc) + len(mc), median_separation_of_the_two_pixel_targets=sep, violations=v)


def oracle_search(ctx, hints):
    rng = ctx.rng("search")
    v, _ = oracle_run(ctx, gen_pixel_cases(rng, 60), gen_mog_cases(rng, 18))
    return v


def replay(ctx, payload):
    c = payload["case"]
    v, _ = oracle_run(ctx, [c] if payload["kind"] == "pixel" else [], [c] if payload["kind"] == "mog" else [])
    return v
