"""C12 — auto-generated priors are complete, physical and in image coordinates.

Theorems (Props/C12.lean): the two parameter tables agree; generate_prior defines exactly the table's parameters (+suffix, +sky)
for all 7×3 types and any guesses; physical bounds as regenerated constants; r_eff priors truncated below; position prior
Normal(xc_guess, 1)/Normal(yc_guess, 1); positive scales under explicit hypotheses; multi-source naming `_i`.
Tie: real SourceProperties setters + generate_prior and PySersicMultiPrior (dict / DataFrame / recarray catalogues, with and
without theta column) vs the Lean `genprior` / `multiprior` entries (names, families exact; numbers 1e-6 relative).
Oracle: check_vars, sampled draws inside the physical domain and rendering to finite images, photutils-based autoprior on
rendered sources (centre within 0.25 px for S/N ≥ 100), finiteness on noisy / negative-total images.
"""
from __future__ import annotations

import numpy as np

from .common import Violation, f2h, h2f, run_children

PROP = "C12"
LEAN_TARGETS = ["Props.C12", "driver"]
AUDIT_IMPORTS = ["Props.C12"]
NS = "Pysersic.Props.C12."
OBLIGATIONS = [NS + t for t in [
    "repo_types_agree", "repo_tables_agree", "names_free_of_guesses", "autoprior_complete", "sourcePrior_keys", "autoprior_nodup",
    "repo_bounds", "rEff_truncated", "rEff_support", "uniform_exposed_range", "position_prior", "guesses_scales",
    "zero_radius_degenerate", "multi_names",
]]
# translated source text proved equal to the model definitions this property's theorems are about
GEN_KERNELS = ["generate_prior"]
MIRRORED_FILES = ["pysersic/priors.py", "pysersic/rendering.py"]
ASSUMPTIONS = [
    "photutils data_properties (segment flux, half-light radius, windowed centroid, orientation) is outside the model: its outputs are observed by the oracle only",
    "hyper-parameters compared at 1e-6 relative: generate_prior computes two widths with jnp.sqrt in float32",
]
PTYPES = ["sersic", "doublesersic", "sersic_exp", "sersic_pointsource", "pointsource", "exp", "dev"]
SKY = ["none", "flat", "tilted-plane"]
PHYS = dict(r_eff=(0.5, np.inf), ellip=(0.0, 0.9), n=(0.65, 8.0), theta=(0.0, 2 * np.pi), f=(0.0, 1.0))


def describe(d):
    """canonical description of an installed TransformedDistribution"""
    b = d.base_dist
    t = d.transforms[0]
    fam = type(b).__name__
    lo = hi = None
    if "Truncated" in fam:
        lo = None if getattr(b, "low", None) is None else float(b.low)
        hi = None if getattr(b, "high", None) is None else float(b.high)
        fam = "truncnormal"
    return dict(family=fam.lower(), loc=float(t.loc), scale=float(t.scale), low=lo, high=hi)


def real_eval(payload):
    import pandas
    import pysersic.priors as PR
    out = []
    for c in payload["cases"]:
        try:
            if c["mode"] == "single":
                props = PR.SourceProperties(-99)
                props.set_sky_guess(sky_guess=c["sky_guess"], sky_guess_err=c["sky_err"])
                props.set_flux_guess(c["flux"])
                props.set_r_eff_guess(r_eff_guess=c["r"])
                props.set_position_guess((c["x"], c["y"]))
                props.set_theta_guess(c["theta"])
                prior = props.generate_prior(c["ptype"], sky_type=c["sky"], suffix=c["suffix"])
                g = dict(flux=float(props.flux_guess), fluxErr=float(props.flux_guess_err), rEff=float(props.r_eff_guess), rEffErr=float(props.r_eff_guess_err),
                         theta=float(props.theta_guess), xc=float(props.xc_guess), yc=float(props.yc_guess), sky=float(props.sky_guess), skyErr=float(props.sky_guess_err))
                ents = {k: describe(v) for k, v in prior.dist_dict.items()}
                ents.update({k: describe(v) for k, v in prior.sky_prior.dist_dict.items()})
                out.append(dict(entries=ents, guesses=g, check_vars=bool(prior.check_vars()), reparam=sorted(prior.reparam_dict),
                                profile_type=prior.profile_type))
            else:
                cat = dict(x=c["xs"], y=c["ys"], flux=c["fluxes"], r=c["rs"], type=c["types"])
                if c["thetas"] is not None:
                    cat["theta"] = c["thetas"]
                if c["container"] == "dataframe":
                    cat = pandas.DataFrame(cat)
                elif c["container"] == "recarray":
                    cat = pandas.DataFrame(cat).to_records(index=False)
                kw = dict(sky_guess=c["sky_guess"], sky_guess_err=c["sky_err"]) if c["sky"] != "none" else {}
                prior = PR.PySersicMultiPrior(cat, sky_type=c["sky"], suffix=c["suffix"], **kw)
                ents = {k: describe(v) for k, v in prior.dist_dict.items()}
                ents.update({k: describe(v) for k, v in prior.sky_prior.dist_dict.items()})
                out.append(dict(entries=ents, n_sources=int(prior.N_sources), reparam=sorted(prior.reparam_dict)))
        except Exception as e:
            import traceback
            out.append(dict(error=f"{type(e).__name__}: {e}", tb=traceback.format_exc()[-500:]))
    return out


def gen_cases(rng, n):
    cases = []
    for k in range(n):
        if k % 3 < 2:
            cases.append(dict(mode="single", ptype=PTYPES[k % 7], sky=SKY[(k // 7) % 3], suffix=str(rng.choice(["", "_a", "_2_g"])),
                              flux=float(rng.choice([rng.uniform(1, 1e4), -rng.uniform(1, 100)], p=[0.85, 0.15])), r=float(rng.uniform(0.3, 30)),
                              x=float(rng.uniform(0, 100)), y=float(rng.uniform(0, 100)), theta=float(rng.uniform(-3, 6)),
                              sky_guess=float(rng.normal(0, 2)), sky_err=float(np.exp(rng.uniform(-4, 0)))))
        else:
            m = int(rng.integers(1, 7))
            cases.append(dict(mode="multi", sky=SKY[(k // 3) % 3], suffix=str(rng.choice(["", "_b"])), types=[str(rng.choice(PTYPES)) for _ in range(m)],
                              xs=[float(v) for v in rng.uniform(0, 60, m)], ys=[float(v) for v in rng.uniform(0, 60, m)],
                              fluxes=[float(v) for v in rng.uniform(5, 500, m)], rs=[float(v) for v in rng.uniform(0.8, 6, m)],
                              thetas=[float(v) for v in rng.uniform(0, 3, m)] if rng.random() < 0.5 else None,
                              container=str(rng.choice(["dict", "dataframe", "recarray"])), sky_guess=float(rng.normal(0, 1)), sky_err=float(np.exp(rng.uniform(-3, 0)))))
            c = cases[-1]
            if (k // 3) % 2 == 0:
                # catalogues written by other tools carry a junk radius for point sources (galfit: -99; or NaN): the row's radius is not used
                if (k // 6) % 2 == 0:
                    c["types"][0] = "pointsource"
                for j, t in enumerate(c["types"]):
                    if t == "pointsource":
                        c["rs"][j] = [-99.0, float("nan")][(k // 3 + j) % 2]
        if k % 4 == 1:
            cases[-1]["sky_guess"] = 0.0       # a background-subtracted image: the sky level guess is exactly zero, its uncertainty is not
    return cases


def model_line(c, real):
    sfx = c["suffix"] or "-"
    if c["mode"] == "single":
        g = real["guesses"]
        return (f"genprior {c['ptype']} {c['sky']} {sfx} " + " ".join(f2h(g[k]) for k in ("flux", "fluxErr", "rEff", "rEffErr", "theta", "xc", "yc", "sky", "skyErr")))
    rows = []
    th = c["thetas"] or [0.0] * len(c["types"])
    for t, f, r, x, y, a in zip(c["types"], c["fluxes"], c["rs"], c["xs"], c["ys"], th):
        rows.append(f"{t} {'1' if f > 0 else '0'} {f2h(f)} {f2h(r)} {f2h(x)} {f2h(y)} {f2h(a)}")
    return f"multiprior {c['sky']} {sfx} {f2h(c['sky_guess'] if c['sky'] != 'none' else 0.0)} {f2h(c['sky_err'] if c['sky'] != 'none' else 0.0)} {len(rows)} " + " ".join(rows)


def parse_entries(rep):
    out = {}
    for tok in rep.split(" "):
        if not tok:
            continue
        nm, fam, loc, sc, lo, hi = tok.split("|")
        out[nm] = dict(family=fam, loc=h2f(loc), scale=h2f(sc), low=None if lo == "-" else h2f(lo), high=None if hi == "-" else h2f(hi))
    return out


def num_eq(a, b):
    if a is None or b is None:
        return a is None and b is None
    return abs(a - b) <= 1e-6 * max(abs(a), abs(b)) + 1e-12


def phys_key(name):
    base = name.split("_")[0]
    if name.startswith("r_eff"):
        return "r_eff"
    if name.startswith("ellip"):
        return "ellip"
    if base == "n":
        return "n"
    if base == "theta":
        return "theta"
    if base == "f":
        return "f"
    return None


def evaluate(ctx, cases):
    real = run_children("c12", "real_eval", [dict(cases=cases)], x64=False)[0]
    ok_idx = [i for i, r in enumerate(real) if "error" not in r]
    rep = ctx.driver.ask([model_line(cases[i], real[i]) for i in ok_idx])
    model = dict(zip(ok_idx, rep))
    dis, viol = [], []
    for i, (c, r) in enumerate(zip(cases, real)):
        def v(clause, msg):
            return Violation(f"C12:{clause}:{c['mode']}", f"{c['mode']} prior ({c.get('ptype') or c.get('types')}, sky {c['sky']}, suffix '{c['suffix']}'): {msg}",
                             dict(kind="oracle-struct", case=c))
        if "error" in r:
            viol.append(v("exception", r["error"]))
            continue
        m = parse_entries(model[i])
        diffs = []
        if set(m) != set(r["entries"]):
            diffs.append(f"parameter names: real−model {sorted(set(r['entries']) - set(m))}, model−real {sorted(set(m) - set(r['entries']))}")
        for nm in set(m) & set(r["entries"]):
            a, b = r["entries"][nm], m[nm]
            if a["family"] != b["family"] or not all(num_eq(a[k], b[k]) for k in ("loc", "scale", "low", "high")):
                diffs.append(f"{nm}: real {a} model {b}")
        if diffs:
            dis.append(dict(case=c, diffs=diffs[:4]))
        # oracle: completeness and physical supports straight from the property
        import pysersic.rendering as RD  # parameter table of the renderer (pure python constants)
        ents = r["entries"]
        if c["mode"] == "single":
            want = {p + c["suffix"] for p in RD.base_profile_params[c["ptype"]]} | {s + c["suffix"] for s in dict(zip(SKY, [[], ["sky_back"], ["sky_back", "sky_x_sl", "sky_y_sl"]]))[c["sky"]]}
            if set(ents) != want:
                viol.append(v("complete", f"defines {sorted(ents)}, required {sorted(want)}"))
            if not r["check_vars"] and c["suffix"] == "":
                viol.append(v("check-vars", "check_vars() is False for an auto-generated prior"))
        else:
            want = set()
            for j, t in enumerate(c["types"]):
                want |= {f"{p}_{j}{c['suffix']}" for p in RD.base_profile_params[t]}
            want |= set(dict(zip(SKY, [[], ["sky_back"], ["sky_back", "sky_x_sl", "sky_y_sl"]]))[c["sky"]])
            if set(ents) != want:
                viol.append(v("multi-names", f"defines {sorted(ents)}, required {sorted(want)}"))
        for nm, e in ents.items():
            pk = phys_key(nm)
            finite = all(np.isfinite(e[k]) for k in ("loc", "scale")) and e["scale"] > 0
            positive_inputs = (c["mode"] == "multi") or (c["r"] > 0)
            if not finite and positive_inputs and not (c["mode"] == "single" and c["flux"] <= 0 and nm.startswith("flux")):
                viol.append(v("finite", f"{nm}: loc={e['loc']}, scale={e['scale']}"))
                continue
            if pk and finite:
                lo_p, hi_p = PHYS[pk]
                if e["family"] == "uniform":
                    lo, hi = e["loc"], e["loc"] + e["scale"]
                elif e["family"] == "truncnormal":
                    lo = -np.inf if e["low"] is None else e["loc"] + e["scale"] * e["low"]
                    hi = np.inf if e["high"] is None else e["loc"] + e["scale"] * e["high"]
                else:
                    lo, hi = -np.inf, np.inf
                eps = 2e-5 * max(1.0, abs(e["loc"]), e["scale"])      # bounds are re-derived from float32 hyper-parameters
                if lo < lo_p - eps or hi > hi_p + eps:
                    viol.append(v("physical", f"{nm}: support [{lo:.6g}, {hi:.6g}] leaves the physical domain [{lo_p}, {hi_p:.6g}]"))
        if c["mode"] == "single":
            for nm, val in (("xc", c["x"]), ("yc", c["y"])):
                e = ents.get(nm + c["suffix"])
                if e and (e["family"] != "normal" or not num_eq(e["loc"], val)):
                    viol.append(v("position", f"{nm} prior centred on {e['loc']}, position guess {val}"))
    return dis, viol


def correspondence(ctx):
    rng = ctx.rng("corr")
    cases = gen_cases(rng, 90 if ctx.tier == "quick" else 1500)
    dis, viol = evaluate(ctx, cases)
    stats = dict(single=sum(c["mode"] == "single" for c in cases), multi=sum(c["mode"] == "multi" for c in cases),
                 containers={k: sum(c.get("container") == k for c in cases) for k in ("dict", "dataframe", "recarray")},
                 no_theta_column=sum(c["mode"] == "multi" and c["thetas"] is None for c in cases),
                 nonpositive_flux=sum(c["mode"] == "single" and c["flux"] <= 0 for c in cases))
    return dict(name="generate_prior / PySersicMultiPrior vs Pysersic.Prob.{sourcePrior, multiPrior}",
                evaluations=len(cases), distinct_nontrivial=len({(c.get('ptype'), c['sky'], c['suffix'], c['mode']) for c in cases}),
                rule="seeded guesses through the public setters (as PySersicMultiPrior itself does) for 7 profile × 3 sky types × suffixes; catalogues of 1–6 "
                     "sources as dict / DataFrame / recarray with and without theta column; names and families exact, numbers 1e-6 relative",
                samples=[{k: c.get(k) for k in ("mode", "ptype", "sky", "suffix")} for c in cases[:3]], distribution=stats, disagreements=dis, violations=viol)


# ----------------------------------------------------------------------------
# photutils-dependent clauses and prior draws (observed only)
# ----------------------------------------------------------------------------

def photo_child(payload):
    import jax
    import jax.numpy as jnp
    import pysersic.priors as PR
    import pysersic.rendering as RD
    from numpyro import handlers
    out = []
    for c in payload["cases"]:
        res = dict(fails=[])
        try:
            rng = np.random.default_rng(c["seed"])
            N = c["N"]
            psf = np.exp(-((np.mgrid[:7, :7][0] - 3) ** 2 + (np.mgrid[:7, :7][1] - 3) ** 2) / (2 * 1.2 ** 2))
            psf /= psf.sum()
            R = RD.HybridRenderer((N, N), jnp.asarray(psf, dtype=jnp.float32))
            if c["what"] == "source":
                p = {k: jnp.float32(v) for k, v in c["params"].items()}
                img = np.asarray(R.render_source(p, c["render_as"]), dtype=np.float64)
                noise = float(np.abs(img).max()) / c["snr"]
                img = img + rng.normal(0, noise, img.shape)
            elif c["what"] == "negative":
                p = {k: jnp.float32(v) for k, v in c["params"].items()}
                img = -np.asarray(R.render_source(p, c["render_as"]), dtype=np.float64) + rng.normal(0, 0.05, (N, N))
            else:
                img = rng.normal(0, 1, (N, N))
            # rectangular cutouts: noise columns added on both sides (the source then sits at x = xc + left, beyond the row count)
            left, right = c.get("pad", (0, 0))
            if left or right:
                # the added columns carry the image's own noise level (noisier margins would pull photutils' whole-image moments)
                pn = min(noise, 1e-3 * float(np.abs(img).max())) if c["what"] == "source" else 1e-3 * float(np.abs(img).max())
                img = np.concatenate([rng.normal(0, pn, (N, left)), img, rng.normal(0, pn, (N, right))], axis=1)
            mask = None
            if c["mask"]:
                mask = np.zeros(img.shape, bool)
                mask[:3, :] = True
                if c.get("contam"):
                    # something the mask is there to hide: undefined pixels on the border, under the mask (the source stays isolated on a
                    # zero background, as the position clause requires; photutils' windowed centroid is not insensitive to bright masked
                    # neighbours, which is outside this property)
                    img = img.copy()
                    img[0, 5] = np.nan
                    img[1, -4:] = np.nan
            prior = PR.autoprior(img, c["ptype"], mask=mask, sky_type=c["sky"])
            ents = {k: (float(v.transforms[0].loc), float(v.transforms[0].scale)) for k, v in prior.dist_dict.items()}
            # the chosen sky parameters are part of the generated prior: their hyper-parameters must be finite too
            ents.update({k: (float(v.transforms[0].loc), float(v.transforms[0].scale)) for k, v in prior.sky_prior.dist_dict.items()})
            bad = {k: e for k, e in ents.items() if not (np.isfinite(e[0]) and np.isfinite(e[1]) and e[1] > 0)}
            if bad:
                res["fails"].append(("finite", f"hyper-parameters not finite / not positive: {bad}"))
            if c["what"] == "source" and c["snr"] >= 100 and not bad:
                dx, dy = ents["xc"][0] - (c["params"]["xc"] + left), ents["yc"][0] - c["params"]["yc"]
                if not (abs(dx) <= 0.25 and abs(dy) <= 0.25):
                    res["fails"].append(("centre", f"position prior centred ({ents['xc'][0]:.3f}, {ents['yc'][0]:.3f}), source at ({c['params']['xc'] + left:.3f}, {c['params']['yc']:.3f}) in a {img.shape[0]}×{img.shape[1]} cutout"))
            if not bad and c["draws"]:
                nbad = 0
                for k in range(c["draws"]):
                    tr = handlers.trace(handlers.seed(lambda: prior(), k)).get_trace()
                    vals = {n: float(s["value"]) for n, s in tr.items()}
                    for n, val in vals.items():
                        pk = phys_key(n)
                        if pk and not (PHYS[pk][0] - 1e-6 <= val <= PHYS[pk][1] + 1e-6):
                            res["fails"].append(("draw-range", f"prior draw {n} = {val} outside {PHYS[pk]}"))
                            nbad += 1
                    if k < 8:
                        im = np.asarray(R.render_source({n: jnp.float32(val) for n, val in vals.items()}, c["ptype"]))
                        if not np.isfinite(im).all():
                            res["fails"].append(("draw-render", f"prior draw renders to a non-finite image: {vals}"))
                    if nbad:
                        break
        except Exception as e:
            res["fails"].append(("exception", f"{type(e).__name__}: {str(e)[:200]}"))
        out.append(res)
    return out


def gen_photo_cases(rng, n):
    cases = []
    for k in range(n):
        N = int(rng.choice([48, 64]))
        pt = PTYPES[k % 7]
        what = ["source", "source", "source", "negative", "noise"][k % 5]
        params = dict(xc=float(rng.uniform(N / 2 - 8, N / 2 + 8)), yc=float(rng.uniform(N / 2 - 8, N / 2 + 8)), flux=float(rng.uniform(100, 5000)))
        pt_render = pt
        if pt != "pointsource":
            params.update(r_eff=float(rng.uniform(1.5, N / 12)), n=float(rng.uniform(0.8, 4)), ellip=float(rng.uniform(0, 0.7)), theta=float(rng.uniform(0, np.pi)))
            pt_render = "sersic"
        # S/N, sky, mask, contamination under the mask and rectangular padding vary independently of the profile type and of each other
        snr = [100, 1000, 5, 1e4, 20][(k // 2) % 5]
        pad = [(0, 0), (N // 2 + 8, 4), (0, 0), (6, N // 2)][(k // 3) % 4] if what == "source" else (0, 0)
        cases.append(dict(N=N, ptype=pt, what=what, params=params, snr=float(snr), sky=SKY[(k // 2) % 3], mask=bool(k % 2), contam=bool(k % 4 == 1), pad=pad,
                          seed=int(rng.integers(0, 2 ** 31)), draws=40 if what == "source" else 0, render_as=pt_render))
    return cases


def photo_run(ctx, cases):
    from . import render_common as RC
    w = min(ctx.workers, 8)
    res = RC.unchunk(run_children("c12", "photo_child", [dict(cases=ch) for ch in RC.chunked(cases, w)], x64=False, workers=w), len(cases))
    out = []
    for c, r in zip(cases, res):
        for clause, msg in r["fails"]:
            out.append(Violation(f"C12:{clause}:{c['what']}",
                                 f"autoprior('{c['ptype']}', sky={c['sky']}, mask={c['mask']}) on a {c['what']} image (N={c['N']}, S/N={c['snr']:g}): {msg}",
                                 dict(kind="oracle-photo", case=c)))
    return out


def residual(ctx):
    rng = ctx.rng("photo")
    cases = gen_photo_cases(rng, 20 if ctx.tier == "quick" else 300)
    return dict(name="photutils-based autoprior on rendered / negative / pure-noise images; prior draws in range and rendering finite", cases=len(cases),
                violations=photo_run(ctx, cases))


def oracle_search(ctx, hints):
    rng = ctx.rng("search")
    cases = [h["case"] for h in hints[:20] if isinstance(h.get("case"), dict) and "mode" in h["case"]] + gen_cases(rng, 120)
    return evaluate(ctx, cases)[1]


def replay(ctx, payload):
    if payload.get("kind") == "oracle-photo":
        return photo_run(ctx, [payload["case"]])
    return evaluate(ctx, [payload["case"]])[1]
