"""C18 — inconsistent inputs are rejected, consistent inputs are ingested faithfully.

Tie: FitSingle / FitMulti / renderer constructors are called with data, rms,
PSF and mask of the shapes the property enumerates; the outcome class is
compared with the Lean decision model `Validate.fitterInit` evaluated with the
structural facts regenerated from the source (`Gen.validateFacts`).
Oracle: the property's statement evaluated directly (consistent ⇒ accepted and
stored value-for-value; inconsistent ⇒ one of the documented exceptions for an
inconsistency that is present).
"""
from __future__ import annotations

import itertools
import multiprocessing
import warnings
from concurrent.futures import ProcessPoolExecutor

import numpy as np

from .common import Violation

_MP = multiprocessing.get_context("spawn")

PROP = "C18"
LEAN_TARGETS = ["Props.C18", "driver"]
AUDIT_IMPORTS = ["Props.C18"]
NS = "Pysersic.Props.C18."
OBLIGATIONS = [NS + t for t in [
    "repo_facts", "accept_iff_consistent", "reject_rms_shape", "reject_negative_rms",
    "reject_psf_larger", "reject_mask_shape", "outcome_documented", "renderer_accept_iff",
    "mask_polarity", "mask_none_all_used", "mask_length", "prior_types", "type_lists_agree",
]]
MIRRORED_FILES = ["pysersic/pysersic.py", "pysersic/rendering.py", "pysersic/priors.py"]
ASSUMPTIONS = [
    "outcomes depend on the inputs only through their shapes, the presence of a negative rms value and the renderer class (checked by the correspondence over value-randomised inputs)",
    "float32 casting and jnp.array conversion are value-preserving for float32-representable inputs (checked bit-for-bit by the oracle, not modelled)",
    "warnings (rms scale, PSF normalisation, mask fraction) are not modelled",
]

RENDERERS = ["pixel", "fourier", "hybrid"]
_mods = None


def _load():
    global _mods
    if _mods is None:
        warnings.filterwarnings("ignore")
        import jax.numpy as jnp
        import pysersic
        from pysersic import priors, rendering
        from pysersic.exceptions import KernelError, ShapeMatchError
        _mods = dict(jnp=jnp, ps=pysersic, priors=priors, rendering=rendering,
                     KernelError=KernelError, ShapeMatchError=ShapeMatchError,
                     R=dict(pixel=rendering.PixelRenderer, fourier=rendering.FourierRenderer,
                            hybrid=rendering.HybridRenderer))
    return _mods


def classify(e, M):
    if isinstance(e, M["ShapeMatchError"]):
        return "ShapeMatchError"
    if isinstance(e, M["KernelError"]):
        return "KernelError"
    if isinstance(e, AssertionError):
        return "AssertionError"
    if isinstance(e, TypeError):
        return "TypeError"
    if isinstance(e, ValueError):
        return "ValueError"
    return "other:" + type(e).__name__


def build_inputs(case, seed):
    rng = np.random.default_rng(seed)
    d, r, p, m = case["d"], case["r"], case["p"], case["m"]
    data = rng.normal(0, 1, size=d)
    rms = np.abs(rng.normal(1, 0.1, size=r)) + 0.1
    if case["neg"]:
        pos = tuple(int(rng.integers(0, s)) for s in r)
        rms[pos] = -abs(rms[pos])
    if case.get("nan"):
        # a NaN somewhere else in the rms map must not hide a negative value (nor make a clean map be refused)
        flat = rms.reshape(-1)
        cand = [i for i in range(flat.size) if flat[i] > 0]
        if cand:
            flat[cand[int(rng.integers(0, len(cand)))]] = np.nan
    psf = np.abs(rng.normal(1, 0.3, size=p))
    psf /= psf.sum()
    mask = None
    if m is not None:
        mb = rng.random(m) < 0.15
        dt = case.get("mdtype", "bool")
        if case.get("neg_under_mask") and case["neg"] and tuple(m) == tuple(r):
            mb[pos] = True            # the negative rms value sits under a masked pixel: still an invalid rms map
        mask = mb if dt == "bool" else mb.astype(int) if dt == "int" else mb.astype(float) * rng.choice([1.0, 2.5, -1.0])
    return data, rms, psf, mask


def run_fitter(case, seed=0):
    """Returns (outcome token, stored-array check message or None)."""
    M = _load()
    jnp = M["jnp"]
    data, rms, psf, mask = build_inputs(case, seed)
    if case.get("kind", "numpy") == "jax":
        data, rms, psf = jnp.array(data), jnp.array(rms), jnp.array(psf)
        if mask is not None:
            mask = jnp.array(mask)
    if case.get("fitter", "single") == "single":
        prior = M["priors"].PySersicSourcePrior("sersic")
        ctor = M["ps"].FitSingle
    else:
        prior = M["priors"].PySersicMultiPrior(dict(x=[3.0], y=[3.0], flux=[10.0], r=[2.0], type=["sersic"]))
        ctor = M["ps"].FitMulti
    try:
        with warnings.catch_warnings():
            warnings.simplefilter("ignore")
            f = ctor(data, rms, psf, prior, mask=mask, renderer=M["R"][case["R"]])
    except Exception as e:
        return classify(e, M), None
    # faithful ingestion
    msgs = []
    nd, nr, npsf = np.asarray(data), np.asarray(rms), np.asarray(psf)
    for name, stored, orig in (("data", f.data, nd), ("rms", f.rms, nr), ("psf", f.psf, npsf)):
        s = np.asarray(stored)
        if s.dtype != np.float32 or s.shape != orig.shape or not np.array_equal(s, orig.astype(np.float32), equal_nan=True):
            msgs.append(f"{name} not stored value-for-value as float32 (shape {s.shape} vs {orig.shape})")
    sm = np.asarray(f.mask)
    exp = np.ones(nd.shape, bool) if mask is None else ~(np.asarray(mask) != 0)
    if sm.dtype != np.bool_ or sm.shape != exp.shape or not np.array_equal(sm, exp):
        msgs.append("mask not stored with inverted polarity")
    rp = np.asarray(f.renderer.pixel_PSF)
    if rp.shape != npsf.shape or not np.array_equal(rp, npsf.astype(np.float32)):
        msgs.append("renderer PSF differs from the supplied PSF")
    if tuple(f.renderer.im_shape) != tuple(nd.shape):
        msgs.append("renderer image shape differs from the data shape")
    return "ok", ("; ".join(msgs) if msgs else None)


def run_renderer(case):
    M = _load()
    jnp = M["jnp"]
    psf = np.ones(case["p"], dtype=np.float32) / np.prod(case["p"])
    try:
        with warnings.catch_warnings():
            warnings.simplefilter("ignore")
            M["R"][case["R"]](tuple(case["d"]), jnp.array(psf))
    except Exception as e:
        return classify(e, M)
    return "ok"


def two_d(case):
    """the Lean decision model speaks about 2-D shapes; other ranks are judged by the oracle alone"""
    return len(case["r"]) == 2 and (case["m"] is None or len(case["m"]) == 2)


def model_line(case):
    m = case["m"]
    if not two_d(case):
        return "ping"
    if case.get("cmd") == "ri":
        return "ri %s %d %d %d %d" % (case["R"], *case["d"], *case["p"])
    return "ci %s %d %d %d %d %d %d %s %s %d" % (
        case["R"], *case["d"], *case["r"], *case["p"],
        "-" if m is None else m[0], "-" if m is None else m[1], 1 if case["neg"] else 0)


def allowed_outcomes(case):
    """The property read literally: set of acceptable outcomes."""
    d, r, p, m = case["d"], case["r"], case["p"], case["m"]
    acc = set()
    if tuple(r) != tuple(d):
        acc.add("ShapeMatchError")
    if m is not None and tuple(m) != tuple(d):
        acc.add("ShapeMatchError")
    if case["neg"]:
        acc.add("ValueError")
    if p[0] > d[0] or p[1] > d[1]:
        acc.add("KernelError")
    return acc or {"ok"}


def describe(case):
    return (f"renderer={case['R']} data={tuple(case['d'])} rms={tuple(case['r'])} psf={tuple(case['p'])} "
            f"mask={None if case['m'] is None else tuple(case['m'])} negative_rms={case['neg']} "
            f"inputs={case.get('kind', 'numpy')} mask_dtype={case.get('mdtype', 'bool')} fitter={case.get('fitter', 'single')}")


def sig(case, outcome):
    d, p = case["d"], case["p"]
    rel = lambda a, b: "lt" if a < b else "eq" if a == b else "gt"  # noqa: E731
    m = case["m"]
    return (f"C18:{outcome}:R={case['R']}:rms={'same' if tuple(case['r']) == tuple(d) else 'diff'}:"
            f"mask={'none' if m is None else 'same' if tuple(m) == tuple(d) else 'diff'}:neg={int(case['neg'])}:"
            f"psf-rows={rel(p[0], d[0])},psf-cols={rel(p[1], d[1])},psf-square={int(p[0] == p[1])}")


def oracle_eval(case, outcome, stored_msg):
    out = []
    ok = allowed_outcomes(case)
    if outcome not in ok:
        out.append(Violation(sig(case, outcome),
                             f"constructor outcome {outcome}, property allows {sorted(ok)}: {describe(case)}",
                             dict(kind="oracle", case={k: (list(v) if isinstance(v, tuple) else v) for k, v in case.items()})))
    if stored_msg:
        out.append(Violation(sig(case, "stored"), f"{stored_msg}: {describe(case)}",
                             dict(kind="oracle", case={k: (list(v) if isinstance(v, tuple) else v) for k, v in case.items()})))
    return out


def shapes_around(N, deltas=(-1, 0, 1)):
    return [(N + a, N + b) for a in deltas for b in deltas]


def gen_cases(ctx):
    rng = ctx.rng("cases")
    cases = []
    if ctx.tier == "quick":
        Ns = [8, 24, 40]
        for N in Ns:
            d = (N, N)
            around = shapes_around(N)
            # one shape varied at a time, all renderers for the PSF axis
            for r in around:
                cases.append(dict(R="pixel", d=d, r=r, p=(5, 5), m=None, neg=False))
            for m in around:
                cases.append(dict(R="pixel", d=d, r=d, p=(5, 5), m=m, neg=False,
                                  mdtype=["bool", "int", "float"][len(cases) % 3]))
            for p in around:
                for R in RENDERERS:
                    cases.append(dict(R=R, d=d, r=d, p=p, m=None, neg=False))
            for R in RENDERERS:
                cases.append(dict(R=R, d=d, r=d, p=(N - 1, N - 1), m=d, neg=True))
            # sampled combinations
            for _ in range(40):
                cases.append(dict(R=RENDERERS[int(rng.integers(0, 3))], d=d,
                                  r=around[int(rng.integers(0, 9))], p=around[int(rng.integers(0, 9))],
                                  m=(None if rng.random() < 0.3 else around[int(rng.integers(0, 9))]),
                                  neg=bool(rng.random() < 0.3),
                                  kind="jax" if rng.random() < 0.3 else "numpy",
                                  mdtype=["bool", "int", "float"][int(rng.integers(0, 3))],
                                  fitter="multi" if rng.random() < 0.2 else "single"))
    else:
        for N in (8, 16, 24, 32, 40):
            d = (N, N)
            around = shapes_around(N)
            for r, p, m in itertools.product(around, around, [None] + around):
                k = len(cases)
                cases.append(dict(R=RENDERERS[k % 3] if (r != d or (m is not None and m != d)) else "pixel",
                                  d=d, r=r, p=p, m=m, neg=False, mdtype=["bool", "int", "float"][(k // 3) % 3],
                                  kind="jax" if k % 5 == 0 else "numpy"))
                if k % 4 == 0:
                    cases.append(dict(R="pixel", d=d, r=r, p=p, m=m, neg=True))
            for p in around:
                for R in RENDERERS:
                    for m in (None, d):
                        cases.append(dict(R=R, d=d, r=d, p=p, m=m, neg=False, fitter="multi" if R == "fourier" else "single"))
    # shapes of a different number of dimensions whose leading axes agree, and NaN next to a negative rms value
    for N in ((8, 24) if ctx.tier == "quick" else (8, 16, 24, 32, 40)):
        d = (N, N)
        for odd in [(N,), (N, N, 1), (N, N, 2), (1, N, N), (N * N,)]:
            cases.append(dict(R="pixel", d=d, r=odd, p=(5, 5), m=None, neg=False))
            cases.append(dict(R="pixel", d=d, r=d, p=(5, 5), m=odd, neg=False, mdtype=["bool", "int", "float"][len(cases) % 3]))
        for R in RENDERERS:
            for neg in (True, False):
                cases.append(dict(R=R, d=d, r=d, p=(5, 5), m=(d if R == "hybrid" else None), neg=neg, nan=True,
                                  kind="jax" if R == "fourier" else "numpy"))
    # a negative rms value that coincides with a masked pixel
    for k, N in enumerate((8, 24, 40) if ctx.tier == "quick" else (8, 16, 24, 32, 40)):
        for R in RENDERERS:
            cases.append(dict(R=R, d=(N, N), r=(N, N), p=(5, 5), m=(N, N), neg=True, neg_under_mask=True,
                              mdtype=["bool", "int", "float"][(k + len(cases)) % 3], fitter="multi" if R == "fourier" else "single"))
    # random consistent inputs of other sizes for the round trip
    for _ in range(30 if ctx.tier == "quick" else 300):
        N = int(rng.integers(8, 41))
        s = int(rng.integers(1, N + 1))
        t = s if rng.random() < 0.6 else int(rng.integers(1, N + 1))
        cases.append(dict(R=RENDERERS[int(rng.integers(0, 3))], d=(N, N), r=(N, N), p=(s, t),
                          m=(None if rng.random() < 0.4 else (N, N)), neg=False,
                          kind="jax" if rng.random() < 0.3 else "numpy",
                          mdtype=["bool", "int", "float"][int(rng.integers(0, 3))]))
    return cases


def _job(args):
    case, seed = args
    if case.get("cmd") == "ri":
        return run_renderer(case), None
    return run_fitter(case, seed)


TYPE_CASES = [("sersic", "flat"), ("sersic", "none"), ("dev", "tilted-plane"), ("Sersic", "flat"), ("sersic", "Flat"),
              ("gaussian", "none"), ("~", "none"), ("exp", "tilted_plane"), ("pointsource", "flat"),
              ("sersic_exp", "none"), ("doublesersic", "flat"), ("sersic_pointsource", "none"), ("sersic", "~")]


def x64_child(payload):
    return [run_fitter(c, payload["seed"] * 100003 + i) for i, c in enumerate(payload["cases"])]


def run_types(ctx):
    M = _load()
    lines, real = [], []
    for p, s in TYPE_CASES:
        lines.append(f"pt {p} {s}")
        pp, ss = ("" if p == "~" else p), ("" if s == "~" else s)
        try:
            M["priors"].PySersicSourcePrior(pp, sky_type=ss, sky_guess=0.0, sky_guess_err=1.0)
            real.append("ok")
        except Exception as e:
            real.append(classify(e, M))
    model = ctx.driver.ask(lines)
    dis, vio = [], []
    for (p, s), m, r in zip(TYPE_CASES, model, real):
        if m != r:
            dis.append(dict(profile=p, sky=s, model=m, real=r))
        known = (p in ["sersic", "doublesersic", "sersic_exp", "sersic_pointsource", "pointsource", "exp", "dev"]
                 and s in ["none", "flat", "tilted-plane"])
        if (r == "ok") != known:
            vio.append(Violation(f"C18:types:{p}:{s}", f"prior construction for profile '{p}', sky '{s}' gave {r}",
                                 dict(kind="oracle-types", profile=p, sky=s)))
    return dis, vio


def correspondence(ctx):
    cases = gen_cases(ctx)
    rcases = []
    for N in ((8, 24) if ctx.tier == "quick" else (8, 16, 24, 32, 40)):
        for p in shapes_around(N):
            for R in RENDERERS:
                rcases.append(dict(cmd="ri", R=R, d=(N, N), p=p, r=(N, N), m=None, neg=False))
    allc = cases + rcases
    model_out = ctx.driver.ask([model_line(c) for c in allc])
    jobs = [(c, ctx.seed * 100003 + i) for i, c in enumerate(allc)]
    if ctx.workers > 1 and len(allc) > 400:
        with ProcessPoolExecutor(max_workers=ctx.workers, mp_context=_MP) as ex:
            real_out = list(ex.map(_job, jobs, chunksize=32))
    else:
        real_out = [_job(j) for j in jobs]
    disagreements, violations = [], []
    stats = dict(outcomes={}, by_renderer={}, jax_inputs=0, mask_dtypes={}, accepted=0, renderer_only=len(rcases))
    distinct = set()
    for c, m, (r, stored) in zip(allc, model_out, real_out):
        stats["outcomes"][r] = stats["outcomes"].get(r, 0) + 1
        stats["by_renderer"][c["R"]] = stats["by_renderer"].get(c["R"], 0) + 1
        stats["jax_inputs"] += int(c.get("kind") == "jax")
        if c["m"] is not None:
            stats["mask_dtypes"][c.get("mdtype", "bool")] = stats["mask_dtypes"].get(c.get("mdtype", "bool"), 0) + 1
        stats["accepted"] += int(r == "ok")
        key = (c.get("cmd", "ci"), c["R"], tuple(c["d"]), tuple(c["r"]), tuple(c["p"]), None if c["m"] is None else tuple(c["m"]), c["neg"])
        if allowed_outcomes(c) != {"ok"}:
            distinct.add(key)
        if m != r and two_d(c):
            disagreements.append(dict(case={k: (list(v) if isinstance(v, tuple) else v) for k, v in c.items()}, model=m, real=r))
        violations += oracle_eval(c, r, stored)
    tdis, tvio = run_types(ctx)
    disagreements += tdis
    violations += tvio
    # the same storage contract with 64-bit mode switched on (the mode the renderer docs recommend for direct amplitudes)
    xc = [c for c in cases if allowed_outcomes(c) == {"ok"} and two_d(c)][:: max(1, len(cases) // 12)][:12]
    from .common import run_children
    xr = run_children("c18", "x64_child", [dict(cases=xc, seed=ctx.seed)], x64=True)[0]
    stats["x64_storage_cases"] = len(xc)
    for c, (r, stored) in zip(xc, xr):
        violations += [Violation(v.signature + ":x64", v.what + " [jax_enable_x64 on]", dict(v.replay, x64=True)) for v in oracle_eval(c, r, stored)]
    # mask polarity through the model
    rng = ctx.rng("mask")
    M = _load()
    pm_lines, pm_real = [], []
    for _ in range(40):
        n = int(rng.integers(1, 30))
        vals = rng.choice([0, 1, 2, -1, 0, 0], size=n)
        pm_lines.append("pm %d %s" % (n, " ".join(str(int(v)) for v in vals)))
        got = np.asarray(M["ps"].pysersic.parse_mask(np.asarray(vals).astype(float), np.zeros(n)))
        pm_real.append("".join("1" if b else "0" for b in got))
    pm_lines.append("pm 5 -")
    pm_real.append("".join("1" if b else "0" for b in np.asarray(M["ps"].pysersic.parse_mask(None, np.zeros(5)))))
    for ln, mo, re_ in zip(pm_lines, ctx.driver.ask(pm_lines), pm_real):
        if mo != re_:
            disagreements.append(dict(case=ln, model=mo, real=re_))
    samples = [dict(case=describe(c), model=m, real=r[0]) for c, m, r in list(zip(allc, model_out, real_out))[:3]]
    return dict(
        name="constructor_outcome_vs_Pysersic.Validate.fitterInit",
        evaluations=len(allc) + len(TYPE_CASES) + len(pm_lines), distinct_nontrivial=len(distinct),
        rule=("quick: N∈{8,24,40}, one of rms/mask/PSF shape varied over ±1 per axis at a time + sampled combinations; "
              "thorough: N∈{8,…,40 step 8}, full 9×9×10 shape cross product; numpy/jax inputs, bool/int/float masks, three "
              "renderers, FitSingle/FitMulti, renderer constructors alone, profile/sky type strings, parse_mask; "
              "non-trivial = an inconsistent input; distinct = distinct shape/flag tuple"),
        samples=samples, distribution=stats, disagreements=disagreements, violations=violations,
        exhaustive_part=(ctx.tier == "thorough"))


def oracle_search(ctx, hints):
    out = []
    cases = []
    for h in hints[:50]:
        c = h.get("case")
        if isinstance(c, dict) and "d" in c:
            cases.append({k: (tuple(v) if isinstance(v, list) else v) for k, v in c.items()})
    for N in (8, 16):
        d = (N, N)
        for p in shapes_around(N):
            for R in RENDERERS:
                cases.append(dict(R=R, d=d, r=d, p=p, m=None, neg=False))
        for r in shapes_around(N):
            cases.append(dict(R="pixel", d=d, r=r, p=(3, 3), m=None, neg=False))
            cases.append(dict(R="pixel", d=d, r=d, p=(3, 3), m=r, neg=False))
        cases.append(dict(R="pixel", d=d, r=d, p=(3, 3), m=None, neg=True))
    for i, c in enumerate(cases):
        if c.get("cmd") == "ri":
            continue
        r, stored = run_fitter(c, i)
        out += oracle_eval(c, r, stored)
    _, tv = run_types(ctx)
    out += tv
    best = {}
    for v in out:
        best.setdefault(v.signature, v)
    return list(best.values())


def replay(ctx, payload):
    if payload.get("kind") == "oracle-types":
        return [v for v in run_types(ctx)[1] if v.replay.get("profile") == payload["profile"] and v.replay.get("sky") == payload["sky"]]
    c = {k: (tuple(v) if isinstance(v, list) else v) for k, v in payload["case"].items()}
    if payload.get("x64"):
        from .common import run_children
        r, stored = run_children("c18", "x64_child", [dict(cases=[c], seed=0)], x64=True)[0][0]
    else:
        r, stored = run_fitter(c, 0)
    return oracle_eval(c, r, stored)
