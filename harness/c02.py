"""C02 — profile parameters mean what the API says (centre, r_eff, ellip, theta).

Theorems (Props/C02.lean): I = g(z) strictly decreasing; z = 0 ⇔ (X, Y) = (xc, yc); z = |t| at t·r_eff along (−sin θ, cos θ) and at
t·(1−ellip)·r_eff along the perpendicular; axis defined modulo π; the Gaussian-mixture paths use the same z / rotation / phase;
hybrid broadening identities.
Tie: shared render tie (a swapped sin/cos, a sign flip, b for a, an X/Y swap each change pixels by ≫ 1e-9).
Oracle (observed, the property's tolerances): Gaussian-weighted moments of the real renders vs those of an independent float64
reference renderer (exact b_n, pixel integration with cusp refinement, spatial convolution); enclosed-light fraction inside the
r_eff ellipse on the unconvolved, fully oversampled pixel rendering.
"""
from __future__ import annotations

import numpy as np

from . import render_common as RC
from .common import Violation, run_children

PROP = "C02"
LEAN_TARGETS = ["Props.C02", "driver"]
AUDIT_IMPORTS = ["Props.C02"]
NS = "Pysersic.Props.C02."
OBLIGATIONS = [NS + t for t in ["sersic2d_of_z", "sersicOfZ_strictAnti", "z_on_major_axis", "z_on_minor_axis", "z_zero_iff", "z_point_symm",
                                "axis_mod_pi", "gaussPixelTerm_of_z", "gaussFourierTerm_form", "hybrid_broadening"]]
# kernels whose translated source text (Gen/Kernels.lean) is proved equal to the model kernel this property's theorems are about
GEN_KERNELS = ["render_sersic_2d", "render_gaussian_pixel_term", "render_gaussian_fourier_term", "hybrid_broaden"]
MIRRORED_FILES = ["pysersic/rendering.py"]
ASSUMPTIONS = [
    "that the z = 1 ellipse encloses half of the light is not proved (b_n is an approximation; the fraction is P(2n, b_n) = 0.494…0.500): observed within 0.50 ± 0.02",
    "moment-based clauses on discretised, PSF-convolved images are observed against an independent float64 reference renderer with the property's tolerances",
    "photutils-derived guesses are outside the model (see C12)",
]
EXT = ["sersic", "exp", "dev", "doublesersic", "sersic_exp"]


def correspondence(ctx):
    rng = ctx.rng("corr")
    scenes = []
    for ci, (kind, N, psf, opts) in enumerate(RC.standard_configs(rng, ctx.tier, sizes=[(16, 5), (17, 6)] if ctx.tier == "quick" else None)):
        for i in range(4 if ctx.tier == "quick" else 12):
            sc = RC.gen_scene(rng, kind, N, psf, types=[EXT[(i + ci) % 5]], mode="single", pos_styles=("frac", "half", "int"), **opts)
            for k in sc["params"]:
                if k.startswith("ellip"):
                    sc["params"][k] = 0.8 if (i + ci) % 3 == 0 else float(rng.uniform(0.3, 0.8))      # orientation matters; the edge of the domain included
            scenes.append(sc)
    dis, stats = RC.render_tie(ctx, scenes)
    return dict(name="render_source vs Pysersic.Render.sceneArr (elongated sources: every convention is visible)", evaluations=2 * len(scenes),
                distinct_nontrivial=len({(s['kind'], s['types'][0]) for s in scenes}),
                rule="seeded elongated (0.3 ≤ ellip ≤ 0.8) extended sources at fractional / half-integer / integer centres, three renderers; float64 1e-9 and float32 2e-5 of the peak",
                samples=[RC.scene_summary(s) for s in scenes[:3]], distribution=stats, disagreements=dis, violations=[])


def gen_cases(ctx, n_per_kind):
    rng = ctx.rng("oracle")
    cases = []
    for kind in ("pixel", "fourier", "hybrid"):
        for i in range(n_per_kind):
            N = [48, 49, 64, 65][(i + int(rng.integers(0, 4))) % 4]     # even and odd image sides
            t = EXT[i % 5]
            if kind == "pixel" and t == "dev":
                t = "sersic"          # the pixel renderer's tolerances are stated for n ≤ 2.5; `dev` fixes n = 4
            if kind == "pixel":
                psf = np.ones((1, 1)) if i % 2 else RC.gauss_psf(9, float(rng.uniform(1.1, 1.5)), q=float(rng.uniform(0.8, 1.0)))
                nr = (0.8, 2.5)
                c0 = (N // 2 - 5, N // 2 + 4)
            else:
                psf = [RC.gauss_psf(11, float(rng.uniform(1.1, 1.6))), RC.gauss_psf(12, 1.4, q=0.8), RC.smooth_asym_psf(rng, 11),
                       RC.gauss_psf(12, float(rng.uniform(1.1, 1.6)))][(i + i // 5) % 4]
                nr = (0.8, 6.0)
                c0 = None
            if i % 3 == 1 and kind != "pixel" and np.asarray(psf).shape[0] % 2 == 0:
                psf = RC.gauss_psf(11, float(rng.uniform(1.1, 1.6)))      # the edge-ellipticity cases use an odd stamp (no clamp below)
            sc = RC.gen_scene(rng, kind, N, psf, types=[t], mode="single", suffix="", pos_styles=("frac",), n_range=nr)
            p = sc["params"]
            for k in p:
                if k.startswith("r_eff"):
                    p[k] = float(rng.uniform(1.5, N / 12))
                if k.startswith("ellip"):
                    # the orientation / axis-ratio clauses hold for 0.3 ≤ ellip ≤ 0.8: every third case sits on the upper edge
                    p[k] = 0.8 if i % 3 == 1 else float(rng.uniform(0.3, 0.8))
                    if kind == "pixel":
                        p[k] = min(p[k], 0.7)      # point-sampled pixels outside the box: keep the minor axis resolvable
            if i % 3 == 1 and kind != "pixel":
                # on the upper edge of the ellipticity range the source is also large (the PSF then hides least of the axis ratio)
                for k in p:
                    if k.startswith("r_eff"):
                        p[k] = float(rng.uniform(0.8, 1.0) * N / 12)
            if t in ("doublesersic", "sersic_exp"):
                # alternately one well-defined axis ratio for the composite and two clearly different ones with the second
                # component dominant (so that a component whose own ellipticity is ignored shows); each run has both kinds
                if ((i // 5) % 2 == 0) == (t == "doublesersic"):
                    p["ellip_2"] = p["ellip_1"]
                else:
                    p["ellip_1"], p["ellip_2"], p["f_1"] = float(rng.uniform(0.3, 0.4)), float(rng.uniform(0.65, 0.8)), float(rng.uniform(0.2, 0.4))
                    if i % 3 == 1 and kind != "pixel":
                        p["ellip_2"] = 0.8             # the upper edge of the stated range, as for the single profiles
            if np.asarray(psf).shape[0] % 2 == 0:
                # an even stamp is centred between pixels: the renderers shift by the half pixel in Fourier space (band-limited
                # interpolation of the pixel-integrated image), the reference shifts the analytic profile; the two agree for sampled
                # sources only, so keep the minor axis ≥ 1 px here (under-sampled sources are covered with the odd stamps)
                for k in list(p):
                    if k.startswith("ellip"):
                        r_k = p[k.replace("ellip", "r_eff")]
                        p[k] = float(min(p[k], max(0.3, 1.0 - 1.0 / r_k)))
            p["flux"] = float(rng.uniform(50, 500))
            rr = max(v for k, v in p.items() if k.startswith("r_eff"))
            if c0:
                p["xc"], p["yc"] = float(rng.uniform(*c0)), float(rng.uniform(*c0))
            else:
                m = max(6 * rr, 8)
                lo_c, hi_c = min(m, (N - 1) / 2), max(N - 1 - m, (N - 1) / 2)
                p["xc"], p["yc"] = float(rng.uniform(lo_c, hi_c)), float(rng.uniform(lo_c, hi_c))
            cases.append(RC.cast32_scene(sc))
        # "all three renderers realise the same convention", whatever the number of real-space components of the hybrid renderer:
        # hybrid (3 = default, 9, 12 components in real space) against Fourier, circular Gaussian PSF, source near the centre
        if kind == "hybrid":
            for i in range(max(2, n_per_kind // 5)):
                N = [48, 49, 64][i % 3]
                sc = RC.gen_scene(rng, kind, N, RC.gauss_psf(11, float(rng.uniform(1.2, 1.6))), types=["sersic"], mode="single", suffix="", pos_styles=("frac",),
                                  n_range=(1.0, 6.0), npr=[9, 12, 3][i % 3])
                p = sc["params"]
                p["r_eff"], p["ellip"], p["flux"] = float(rng.uniform(2.5, N / 12)), float(rng.uniform(0.3, 0.6)), float(rng.uniform(50, 500))
                p["xc"], p["yc"] = float(N / 2 + rng.uniform(-2, 2)), float(N / 2 + rng.uniform(-2, 2))
                sc["cross"] = True
                cases.append(RC.cast32_scene(sc))
        # scenes on which the automatic guesses (SourceProperties) are compared with the rendered convention: identity PSF, oblique
        if kind == "pixel":
            for i in range(2):
                N = [48, 49][i]
                sc = RC.gen_scene(rng, kind, N, np.ones((1, 1)), types=["sersic"], mode="single", suffix="", pos_styles=("frac",), n_range=(0.9, 1.5))
                p = sc["params"]
                p["r_eff"], p["ellip"], p["flux"] = float(rng.uniform(3.0, 4.0)), float(rng.uniform(0.5, 0.7)), float(rng.uniform(200, 800))
                p["theta"] = float([rng.uniform(0.4, 1.2), rng.uniform(1.9, 2.7)][i])
                p["xc"], p["yc"] = float(rng.uniform(N // 2 - 3, N // 2 + 2)), float(rng.uniform(N // 2 - 3, N // 2 + 2))
                cases.append(RC.cast32_scene(sc))
        # a Sersic profile with a point source on top: both parts share the centre (xc, yc) — judged by the centroid alone
        for i in range(max(2, n_per_kind // 6)):
            N = [48, 49][i % 2]
            psf = RC.gauss_psf(11, float(rng.uniform(1.2, 1.6)))
            sc = RC.gen_scene(rng, kind, N, psf, types=["sersic_pointsource"], mode="single", suffix="", pos_styles=("frac",), n_range=(0.8, 2.5))
            p = sc["params"]
            p["r_eff"], p["ellip"], p["flux"] = float(rng.uniform(2.0, 4.0)), float(rng.uniform(0, 0.6)), float(rng.uniform(50, 500))
            p["f_ps"] = float(rng.uniform(0.25, 0.6))
            c = N // 2
            p["xc"], p["yc"] = float(c - 3.5 + rng.uniform(0, 1)), float(c + 2.5 + rng.uniform(0, 1))     # xc ≠ yc, inside the pixel renderer's box
            cases.append(RC.cast32_scene(sc))
        # the non-default amplitude path (use_interp_amps=False: the decomposition is computed per call), judged in 64-bit mode
        if kind != "pixel":
            for i in range(max(1, n_per_kind // 5)):
                N = [48, 49, 64][i % 3]
                psf = RC.gauss_psf(11, float(rng.uniform(1.1, 1.6)))
                sc = RC.gen_scene(rng, kind, N, psf, types=[["sersic", "exp", "sersic_exp"][i % 3]], mode="single", suffix="", pos_styles=("frac",), n_range=(0.8, 4.0),
                                  interp=False)
                p = sc["params"]
                for k in p:
                    if k.startswith("r_eff"):
                        p[k] = float(rng.uniform(2.5, N / 12))
                    if k.startswith("ellip"):
                        p[k] = float(rng.uniform(0.3, 0.7))
                if "ellip_2" in p:
                    p["ellip_2"] = p["ellip_1"]
                p["flux"] = float(rng.uniform(50, 500))
                rr = max(v for k, v in p.items() if k.startswith("r_eff"))
                m = max(6 * rr, 8)
                lo_c, hi_c = min(m, (N - 1) / 2), max(N - 1 - m, (N - 1) / 2)
                p["xc"], p["yc"] = float(rng.uniform(lo_c, hi_c)), float(rng.uniform(lo_c, hi_c))
                cases.append(RC.cast32_scene(sc))
    return cases


def oracle_child(payload):
    import jax.numpy as jnp
    out = []
    for sc in payload["scenes"]:
        fails = []
        try:
            N, kind, t = sc["N"], sc["kind"], sc["types"][0]
            R = RC.build_renderer(sc)
            P = sc["params"]
            ft = jnp.float32 if sc.get("interp", True) else jnp.float64
            img = np.asarray(R.render_source({k: ft(v) for k, v in P.items()}, t), dtype=np.float64)
            if sc.get("cross"):
                Rf = RC.build_renderer(dict(sc, kind="fourier"))
                ref = np.asarray(Rf.render_source({k: ft(v) for k, v in P.items()}, t), dtype=np.float64)
                sw = max(2.0 * P["r_eff"], 3.0)
                a, b = RC.weighted_moments(img, sw), RC.weighted_moments(ref, sw)
                what = f"hybrid (num_pixel_render={sc['npr']}) vs Fourier renderer"
                if not abs(a["q"] / b["q"] - 1) <= 0.05:
                    fails.append(("axis-ratio", f"{what}: axis ratio {a['q']:.4f} vs {b['q']:.4f} (1 − ellip = {1 - P['ellip']:.4f})"))
                if not abs(((a["pa"] - b["pa"]) + np.pi / 2) % np.pi - np.pi / 2) <= 0.06:
                    fails.append(("angle", f"{what}: position angle {a['pa']:.4f} vs {b['pa']:.4f}"))
                if not np.hypot(a["xc"] - b["xc"], a["yc"] - b["yc"]) <= 0.2:
                    fails.append(("centroid", f"{what}: centroid ({a['xc']:.3f},{a['yc']:.3f}) vs ({b['xc']:.3f},{b['yc']:.3f})"))
                if not abs(a["size2"] / b["size2"] - 1) <= 0.08:
                    fails.append(("size", f"{what}: squared size {a['size2']:.4f} vs {b['size2']:.4f}"))
                out.append(dict(fails=fails))
                continue
            if t == "sersic_pointsource":
                a = RC.weighted_moments(img, max(2.0 * P["r_eff"], 3.0))
                d = float(np.hypot(a["xc"] - P["xc"], a["yc"] - P["yc"]))
                if not d <= 0.2:
                    fails.append(("centroid", f"centroid of sersic + point source ({a['xc']:.3f},{a['yc']:.3f}) vs (xc, yc) = ({P['xc']:.3f},{P['yc']:.3f}): {d:.3f} px"))
                out.append(dict(fails=fails))
                continue
            ref = RC.reference_image(N, sc["psf"], t, P)
            rr = max(v for k, v in P.items() if k.startswith("r_eff"))
            sw = max(2.0 * rr, 3.0)
            a = RC.weighted_moments(img, sw)
            b = RC.weighted_moments(ref, sw)
            pix = kind == "pixel"
            ns = [c["n"] for c in RC.extended_components(t, P)]
            dcen = float(np.hypot(a["xc"] - b["xc"], a["yc"] - b["yc"]))
            if not dcen <= (0.08 if pix else 0.2):
                fails.append(("centroid", f"centroid ({a['xc']:.3f},{a['yc']:.3f}) vs reference ({b['xc']:.3f},{b['yc']:.3f}): {dcen:.3f} px"))
            # the truth itself: the reference is centred on (xc, yc) with x = column
            if not np.hypot(b["xc"] - P["xc"], b["yc"] - P["yc"]) <= 0.05 + (0.3 if np.asarray(sc["psf"]).shape != (1, 1) else 0):
                pass
            dpa = abs(((a["pa"] - b["pa"]) + np.pi / 2) % np.pi - np.pi / 2)
            if not dpa <= (0.04 if pix else 0.06):
                fails.append(("angle", f"position angle {a['pa']:.4f} vs reference {b['pa']:.4f} (theta = {P['theta'] % np.pi:.4f})"))
            dq = abs(a["q"] / b["q"] - 1)
            if not dq <= 0.05:
                emax = max(v for k, v in P.items() if k.startswith("ellip"))
                # the flattest profiles at the highest indices: recorded finding (the mixture of round-ish inner Gaussians cannot be as flat)
                cl = "axis-ratio-flattest-high-n" if (not pix and max(ns) >= 3.5 and emax >= 0.75) else "axis-ratio"
                fails.append((cl, f"axis ratio {a['q']:.4f} vs reference {b['q']:.4f} (n = {[round(x, 2) for x in ns]}, largest ellip {emax:.2f}, r_eff = {rr:.2f})"))
            ds = abs(a["size2"] / b["size2"] - 1)
            tol_s = 0.015 if pix else 0.08
            if (not pix or max(ns) <= 2.5) and not ds <= tol_s:
                emax_s = max(v for k, v in P.items() if k.startswith("ellip"))
                fails.append(("size-flattest-high-n" if (not pix and max(ns) >= 3.5 and emax_s >= 0.75) else "size", f"squared size {a['size2']:.4f} vs reference {b['size2']:.4f} ({ds:.3%}, tolerance {tol_s:.1%})"))
            # absolute convention check on the reference-independent quantities: PA equals theta mod π, centre equals (xc, yc)
            single = t in ("sersic", "exp", "dev")
            if single and np.asarray(sc["psf"]).shape == (1, 1):
                dth = abs(((a["pa"] - P["theta"]) + np.pi / 2) % np.pi - np.pi / 2)
                if not dth <= 0.04:
                    fails.append(("angle-abs", f"major axis at {a['pa']:.4f} from +y towards −x, theta = {P['theta'] % np.pi:.4f}"))
                if not np.hypot(a["xc"] - P["xc"], a["yc"] - P["yc"]) <= 0.08:
                    fails.append(("centre-abs", f"centroid ({a['xc']:.3f},{a['yc']:.3f}) vs (xc, yc) = ({P['xc']:.3f},{P['yc']:.3f})"))
                # the automatic guesses a prior is built from use the same convention as the renderers (priors.py: set_theta_guess,
                # set_position_guess): measured on this very image
                if 0.3 <= P["ellip"] <= 0.7 and P["r_eff"] >= 2.5 and P.get("n", 1.0) <= 2.5:
                    import pysersic.priors as PR
                    import warnings
                    with warnings.catch_warnings():
                        warnings.simplefilter("ignore")
                        sp = PR.SourceProperties(img + np.random.default_rng(0).normal(0, 1e-4 * img.max(), img.shape))
                    dg = abs(((float(sp.theta_guess) - P["theta"]) + np.pi / 2) % np.pi - np.pi / 2)
                    if not dg <= 0.05:
                        fails.append(("theta-guess", f"SourceProperties(image).theta_guess = {float(sp.theta_guess) % np.pi:.4f}, the image was rendered with theta = {P['theta'] % np.pi:.4f}"))
                    if not np.hypot(float(sp.xc_guess) - P["xc"], float(sp.yc_guess) - P["yc"]) <= 0.15:
                        fails.append(("position-guess", f"SourceProperties(image) position guess ({float(sp.xc_guess):.3f},{float(sp.yc_guess):.3f}) vs (xc, yc) = ({P['xc']:.3f},{P['yc']:.3f})"))
        except Exception as e:
            fails.append(("exception", f"{type(e).__name__}: {str(e)[:200]}"))
        out.append(dict(fails=fails))
    return out


def half_light_child(payload):
    """enclosed-light fraction inside the r_eff ellipse, unconvolved fully oversampled pixel rendering"""
    import jax.numpy as jnp
    import pysersic.rendering as RD
    out = []
    for c in payload["cases"]:
        N = c["N"]
        R = RD.PixelRenderer((N, N), jnp.ones((1, 1), dtype=jnp.float32), os_pixel_size=N // 2, num_os=12)
        p = c["p"]
        img = np.asarray(R.render_source({k: jnp.float32(v) for k, v in p.items()}, "sersic"), dtype=np.float64)
        # fractional coverage of the z ≤ 1 ellipse per pixel (7×7 sub-sampling)
        # (the boundary pixels are apportioned by area: adequate when the minor axis spans several pixels, hence r_eff ≥ 4, ellip ≤ 0.4)
        g = (np.arange(7) + 0.5) / 7 - 0.5
        r, cc = np.mgrid[:N, :N].astype(float)
        cov = np.zeros((N, N))
        tr = p["theta"] + np.pi / 2
        for gi in g:
            for gj in g:
                X, Y = cc + gj, r + gi
                xm = (X - p["xc"]) * np.cos(tr) + (Y - p["yc"]) * np.sin(tr)
                xn = -(X - p["xc"]) * np.sin(tr) + (Y - p["yc"]) * np.cos(tr)
                cov += ((xm / p["r_eff"]) ** 2 + (xn / ((1 - p["ellip"]) * p["r_eff"])) ** 2 <= 1.0)
        cov /= 49.0
        out.append(float((img * cov).sum() / p["flux"]))
    return out


def oracle_run(ctx, scenes):
    w = min(ctx.workers, 8)
    std = [s for s in scenes if s.get("interp", True)]
    direct = [s for s in scenes if not s.get("interp", True)]
    res = RC.unchunk(run_children("c02", "oracle_child", [dict(scenes=ch) for ch in RC.chunked(std, w)], x64=False, workers=w, timeout=3000), len(std))
    if direct:
        res = res + RC.unchunk(run_children("c02", "oracle_child", [dict(scenes=ch) for ch in RC.chunked(direct, min(w, len(direct)))], x64=True,
                                            workers=w, timeout=3000), len(direct))
    scenes = std + direct
    out = []
    for s, r in zip(scenes, res):
        for clause, msg in r["fails"]:
            out.append(Violation(f"C02:{clause}:{s['kind']}", f"{s['kind']} renderer, {s['types'][0]}, N={s['N']}: {msg}", dict(kind="oracle", scene=RC.ser_scene(s))))
    return out


def residual(ctx):
    quick = ctx.tier == "quick"
    scenes = gen_cases(ctx, 5 if quick else 60)
    viol = oracle_run(ctx, scenes)
    rng = ctx.rng("half")
    hl = [dict(N=64, p=dict(xc=float(rng.uniform(30, 33)), yc=float(rng.uniform(30, 33)), flux=100.0, r_eff=float(rng.uniform(4.0, 5.3)),
                            n=float(rng.uniform(0.8, 4.0)), ellip=float(rng.uniform(0, 0.4)), theta=float(rng.uniform(0, 3)))) for _ in range(4 if quick else 40)]
    fr = run_children("c02", "half_light_child", [dict(cases=hl)], x64=False)[0]
    for c, f in zip(hl, fr):
        if not abs(f - 0.5) <= 0.02:
            viol.append(Violation("C02:half-light", f"light inside the r_eff ellipse = {f:.4f} of the flux (n={c['p']['n']:.2f}, r_eff={c['p']['r_eff']:.2f}, ellip={c['p']['ellip']:.2f})",
                                  dict(kind="half", case=c)))
    return dict(name="weighted moments vs independent reference renderer; enclosed light inside the r_eff ellipse", cases=len(scenes) + len(hl),
                half_light_fractions=[round(f, 4) for f in fr], violations=viol)


def oracle_search(ctx, hints):
    return oracle_run(ctx, gen_cases(ctx, 10))


def replay(ctx, payload):
    if payload.get("kind") == "half":
        f = run_children("c02", "half_light_child", [dict(cases=[payload["case"]])], x64=False)[0][0]
        return [] if abs(f - 0.5) <= 0.02 else [Violation("C02:half-light", f"light inside the r_eff ellipse = {f:.4f}", payload)]
    return oracle_run(ctx, [RC.deser_scene(payload["scene"])])
