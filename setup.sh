#!/bin/sh
# MANIFEST.setup_cmd: build the Lean model, proofs and driver from files on disk (offline).
set -e
cd "$(dirname "$0")"
/venv/bin/python tools/extract.py >/dev/null
/venv/bin/python tools/translate.py >/dev/null
/venv/bin/python tools/translate_prog.py >/dev/null
/venv/bin/python tools/translate_scene.py >/dev/null
cd lean
lake build
